//go:build verif

// Trusted contracts of standard-library functions used by pion/transport (or by plausible edits of it).
// Each is listed in the evidence of every check that relies on it (trusted_base) and smoke-tested against
// the real library by /verif/replaykit/std (thorough tier).
package contracts

//@ arith int

//@ extern func (e binary.bigEndian) Uint16(b []byte) (r uint16)
//@   pure
//@   requires len(b) >= 2
//@   ensures r == 256*b[0] + b[1]

//@ extern func (e binary.bigEndian) PutUint16(b []byte, v uint16)
//@   requires len(b) >= 2
//@   modifies b[*]
//@   ensures b[0] == v / 256 && b[1] == v % 256
//@   ensures forall i mathint :: {b[i]} 2 <= i && i < len(b) ==> b[i] == old(b[i])

//@ extern func (e binary.littleEndian) Uint16(b []byte) (r uint16)
//@   pure
//@   requires len(b) >= 2
//@   ensures r == 256*b[1] + b[0]

//@ extern func errors.New(text string) (e error)
//@   pure
//@   ensures e != nil

//@ extern func errors.Is(err error, target error) (r bool)
//@   pure
//@   ensures (err == target) ==> r

// math/rand: the value of the last draw is kept in a ghost global so that contracts can refer to it.
//@ ghost global randLast mathint
//@ extern func rand.Intn(n int) (r int)
//@   requires n > 0
//@   modifies randLast
//@   ensures 0 <= r && r < n && randLast == r

//@ extern func rand.Int63n(n int64) (r int64)
//@   requires n > 0
//@   modifies randLast
//@   ensures 0 <= r && r < n
//@ extern func rand.Seed(seed int64)

//@ extern func time.Now() (t time.Time)
//@   modifies clock
//@   ensures t == clock && clock >= old(clock) && t > 0
//@ extern func (t time.Time) Add(d time.Duration) (r time.Time)
//@   pure
//@   ensures r == t + d
//@ extern func (t time.Time) After(u time.Time) (r bool)
//@   pure
//@   ensures r == (t > u)
//@ extern func (t time.Time) Before(u time.Time) (r bool)
//@   pure
//@   ensures r == (t < u)
//@ extern func (t time.Time) Sub(u time.Time) (r time.Duration)
//@   pure
//@   ensures r == t - u
//@ extern func (t time.Time) UTC() (r time.Time)
//@   pure
//@ extern func (t time.Time) UnixNano() (r int64)
//@   pure

// crypto/subtle.XORBytes (assembly): n = min(len(x), len(y)); dst[i] = x[i]^y[i] for i < n, computed from the values
// before the call (dst may overlap x or y exactly); panics when dst is shorter than n; writes nothing else.
//@ extern func subtle.XORBytes(dst []byte, x []byte, y []byte) (n int)
//@   requires len(dst) >= min(len(x), len(y))
//@   modifies dst[*]
//@   ensures n == min(len(x), len(y))
//@   ensures forall i mathint :: {dst[i]} 0 <= i && i < n ==> dst[i] == old(x[i]) ^ old(y[i])
//@   ensures forall i mathint :: {dst[i]} n <= i && i < len(dst) ==> dst[i] == old(dst[i])

// time: instants are integers on one timeline, the zero Time is 0 (trusted model).
//@ extern func (t time.Time) IsZero() (r bool)
//@   pure
//@   ensures r == (t == 0)
//@ extern func time.Until(t time.Time) (r time.Duration)
//@   modifies lastUntil
//@   ensures r == lastUntil

// timers: the channel of a timer delivers instants (trusted: an instant received from t.C is not in the future)
//@ ghost global tmState map[mathint]mathint
//@ extern func time.NewTimer(d time.Duration) (t *time.Timer)
//@   modifies tmState
//@   ensures t != nil && fresh(t) && t.C != nil && tmState == upd(old(tmState), ref(t.C), 1)
// timer protocol (ghost, keyed by the timer's channel): 0 idle (stopped, or its tick was received), 1 armed, 2 holds an
// unreceived tick.  An armed timer may fire at any time, so Stop on a timer last seen armed either stops it (true) or
// finds the tick already in the channel (false).
//@ extern func (t *time.Timer) Stop() (r bool)
//@   modifies tmState
//@   ensures (old(tmState[ref(t.C)]) != 1 ==> !r && tmState == old(tmState)) &&
//@           (old(tmState[ref(t.C)]) == 1 ==> (r && tmState == upd(old(tmState), ref(t.C), 0)) || (!r && tmState == upd(old(tmState), ref(t.C), 2)))
//@ extern func (t *time.Timer) Reset(d time.Duration) (r bool)
//@   modifies tmState
//@   ensures tmState == upd(old(tmState), ref(t.C), 1)
//@ extern func (c context.Context) Done() (ch <-chan struct{})
//@   pure
//@ extern func time.Sleep(d time.Duration)
//@ extern func time.Since(t time.Time) (r time.Duration)
//@   modifies clock
//@   ensures clock >= old(clock) && r == clock - t
// durations are nanoseconds; Seconds() as an exact real (trusted: float64 rounding ignored)
//@ extern func (d time.Duration) Seconds() (r float64)
//@   pure
//@   ensures r == float64(d) / float64(1000000000)
//@ extern func (d time.Duration) Milliseconds() (r int64)
//@   pure
//@   ensures r * 1000000 <= d && d < (r + 1) * 1000000 || d < 0
//@ extern func math.Min(x float64, y float64) (r float64)
//@   pure
//@   ensures r == ite(x <= y, x, y)

// net addresses: String/Network are pure functions of the address value (trusted)
//@ extern func (a net.Addr) String() (s string)
//@   pure
//@   ensures s == addrStr[ref(a)]
//@ extern func (a net.Addr) Network() (s string)
//@   pure
//@   ensures s == addrNet[ref(a)]
//@ uf udpStr(ip string, port mathint) string
//@ uf validUDP(s string) bool
//@ extern func (a *net.UDPAddr) String() (s string)
//@   pure
//@   ensures s == udpStr(ipStr[base(a.IP)], a.Port)
//@ extern func net.ResolveUDPAddr(network string, address string) (r *net.UDPAddr, err error)
//@   pure
//@   ensures (err == nil) == validUDP(address)
//@   ensures err == nil ==> r != nil && fresh(r) && udpStr(ipStr[base(r.IP)], r.Port) == address
//@   ensures err != nil ==> r == nil
//@ extern func (a *net.UDPAddr) Network() (s string)
//@   pure
//@   ensures s == addrNet[ref(a)]
//@ extern func (ip net.IP) String() (s string)
//@   pure
//@   ensures s == ipStr[base(ip)] && (len(ip) == 4 ==> s == ip4str(ip[0], ip[1], ip[2], ip[3]))
//@ extern func (ip net.IP) Equal(x net.IP) (r bool)
//@   pure
//@   ensures r == (ipStr[base(ip)] == ipStr[base(x)])

//@ extern func (e binary.littleEndian) Uint64(b []byte) (r uint64)
//@   pure
//@   requires len(b) >= 8
//@   ensures r == b[0] + 256*b[1] + 65536*b[2] + 16777216*b[3] + 4294967296*b[4] + 1099511627776*b[5] + 281474976710656*b[6] + 72057594037927936*b[7]
//@ extern func (e binary.littleEndian) PutUint64(b []byte, v uint64)
//@   requires len(b) >= 8
//@   modifies b[*]
//@   ensures b[0] == v % 256 && b[1] == (v / 256) % 256 && b[2] == (v / 65536) % 256 && b[3] == (v / 16777216) % 256 && b[4] == (v / 4294967296) % 256 && b[5] == (v / 1099511627776) % 256 && b[6] == (v / 281474976710656) % 256 && b[7] == (v / 72057594037927936) % 256
//@   ensures forall i mathint :: {b[i]} 8 <= i && i < len(b) ==> b[i] == old(b[i])
//@ extern func (e binary.bigEndian) Uint64(b []byte) (r uint64)
//@   pure
//@   requires len(b) >= 8
//@   ensures r == b[7] + 256*b[6] + 65536*b[5] + 16777216*b[4] + 4294967296*b[3] + 1099511627776*b[2] + 281474976710656*b[1] + 72057594037927936*b[0]
//@ extern func (e binary.bigEndian) PutUint64(b []byte, v uint64)
//@   requires len(b) >= 8
//@   modifies b[*]
//@   ensures b[7] == v % 256 && b[6] == (v / 256) % 256 && b[5] == (v / 65536) % 256 && b[4] == (v / 16777216) % 256 && b[3] == (v / 4294967296) % 256 && b[2] == (v / 1099511627776) % 256 && b[1] == (v / 281474976710656) % 256 && b[0] == (v / 72057594037927936) % 256
//@   ensures forall i mathint :: {b[i]} 8 <= i && i < len(b) ==> b[i] == old(b[i])

// ---- ghost views of library values (trusted): textual form of addresses and IPs, the clock
//@ ghost global addrStr map[mathint]string
//@ ghost global addrNet map[mathint]string
//@ ghost global ipStr map[mathint]string
//@ ghost global clock mathint

// IPv4 text form as an injective function of the four bytes (trusted)
//@ uf ip4str(a mathint, b mathint, c mathint, d mathint) string
//@ ghost global ipUnspec map[mathint]bool
//@ extern func (ip net.IP) IsUnspecified() (r bool)
//@   pure
//@   ensures r == ipUnspec[base(ip)]
//@ uf isLoopbackStr(s string) bool
//@ extern func (ip net.IP) IsLoopback() (r bool)
//@   pure
//@   ensures r == isLoopbackStr(ipStr[base(ip)])
//@ extern func (e builtin.error) Error() (s string)
//@   pure
//@ extern func (ip net.IP) To4() (r net.IP)
//@   pure
//@   ensures r != nil ==> len(r) == 4
//@ uf inNet(n mathint, ip string) bool
//@ extern func (n *net.IPNet) Contains(ip net.IP) (r bool)
//@   pure
//@   ensures r == inNet(ref(n), ipStr[base(ip)])
//@ extern func (n *net.IPNet) String() (s string)
//@   pure
//@ extern func (ifc *transport.Interface) AddAddress(addr net.Addr)
//@ extern func (ifc *transport.Interface) Addrs() (a []net.Addr, err error)
//@   pure

// sync.WaitGroup: no effect on the state under contract (happens-before edges are the lockset pass's business)
//@ extern func (wg *sync.WaitGroup) Done()
//@ extern func (wg *sync.WaitGroup) Add(delta int)
//@ extern func (wg *sync.WaitGroup) Wait()

// sync/atomic.Value: an opaque cell; Load returns an arbitrary stored value (its contents are not tracked)
//@ extern func (v *atomic.Value) Load() (val any)
//@   pure
//@ extern func (v *atomic.Value) Store(val any)

// wrapped connections (netctx / connctx): ghost log of the wrapped I/O call and of the deadlines set on the wrapped conn
//@ ghost global ioN mathint
//@ ghost global ioLastN mathint
//@ ghost global ioLastNil bool
//@ ghost global dlRead map[mathint]mathint
//@ ghost global dlWrite map[mathint]mathint
//@ ghost global dlFail bool
//@ extern func (c net.Conn) Read(b []byte) (n int, err error)
//@   modifies b[*], ioN, ioLastN, ioLastNil
//@   ensures 0 <= n && n <= len(b) && ioN == old(ioN) + 1 && ioLastN == n && ioLastNil == (err == nil)
//@ extern func (c net.Conn) Write(b []byte) (n int, err error)
//@   modifies ioN, ioLastN, ioLastNil
//@   ensures 0 <= n && n <= len(b) && ioN == old(ioN) + 1 && ioLastN == n && ioLastNil == (err == nil)
//@ extern func (c net.Conn) SetReadDeadline(t time.Time) (err error)
//@   modifies dlRead, dlFail
//@   ensures err == nil ==> dlRead == upd(old(dlRead), ref(c), t) && dlFail == old(dlFail)
//@   ensures err != nil ==> dlFail && dlRead == old(dlRead)
//@ extern func (c net.Conn) SetWriteDeadline(t time.Time) (err error)
//@   modifies dlWrite, dlFail
//@   ensures err == nil ==> dlWrite == upd(old(dlWrite), ref(c), t) && dlFail == old(dlFail)
//@   ensures err != nil ==> dlFail && dlWrite == old(dlWrite)
//@ extern func (c net.Conn) Close() (err error)
//@ extern func (c context.Context) Err() (err error)
//@   pure
//@ extern func (c context.Context) Deadline() (deadline time.Time, ok bool)
//@   pure
//@ extern func (c context.Context) Value(key any) (v any)
//@   pure
//@ extern func (c net.PacketConn) ReadFrom(b []byte) (n int, addr net.Addr, err error)
//@   modifies b[*], ioN, ioLastN, ioLastNil
//@   ensures 0 <= n && n <= len(b) && ioN == old(ioN) + 1 && ioLastN == n && ioLastNil == (err == nil)
//@ extern func (c net.PacketConn) WriteTo(b []byte, addr net.Addr) (n int, err error)
//@   modifies ioN, ioLastN, ioLastNil
//@   ensures 0 <= n && n <= len(b) && ioN == old(ioN) + 1 && ioLastN == n && ioLastNil == (err == nil)
//@ extern func (c net.PacketConn) SetReadDeadline(t time.Time) (err error)
//@   modifies dlRead, dlFail
//@   ensures err == nil ==> dlRead == upd(old(dlRead), ref(c), t) && dlFail == old(dlFail)
//@   ensures err != nil ==> dlFail && dlRead == old(dlRead)
//@ extern func (c net.PacketConn) SetWriteDeadline(t time.Time) (err error)
//@   modifies dlWrite, dlFail
//@   ensures err == nil ==> dlWrite == upd(old(dlWrite), ref(c), t) && dlFail == old(dlFail)
//@   ensures err != nil ==> dlFail && dlWrite == old(dlWrite)
