//go:build verif

// Trusted contracts of standard-library functions used by pion/transport (or by plausible edits of it).
// Each is listed in the evidence of every check that relies on it (trusted_base) and smoke-tested against
// the real library by /verif/replaykit/std (thorough tier).
package contracts

//@ arith int

//@ extern func (e binary.bigEndian) Uint16(b []byte) (r uint16)
//@   pure
//@   requires len(b) >= 2
//@   ensures r == 256*b[0] + b[1]

//@ extern func (e binary.bigEndian) PutUint16(b []byte, v uint16)
//@   requires len(b) >= 2
//@   modifies b[*]
//@   ensures b[0] == v / 256 && b[1] == v % 256
//@   ensures forall i mathint :: {b[i]} 2 <= i && i < len(b) ==> b[i] == old(b[i])

//@ extern func (e binary.littleEndian) Uint16(b []byte) (r uint16)
//@   pure
//@   requires len(b) >= 2
//@   ensures r == 256*b[1] + b[0]

//@ extern func errors.New(text string) (e error)
//@   pure
//@   ensures e != nil

//@ extern func errors.Is(err error, target error) (r bool)
//@   pure
//@   ensures (err == target) ==> r
