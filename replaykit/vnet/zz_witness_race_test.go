package vnet

// Witness for failed lock-discipline obligations of vnet (C19): concurrent clients under the race detector.

import (
	"sync"
	"testing"
	"time"

	"github.com/pion/logging"
)



func TestWitnessRaceNewNet(t *testing.T) {
	var wg sync.WaitGroup
	for i := 0; i < 8; i++ {
		wg.Add(1)
		go func() {
			defer wg.Done()
			for k := 0; k < 50; k++ {
				if _, err := NewNet(&NetConfig{}); err != nil {
					t.Error(err)
				}
			}
		}()
	}
	wg.Wait()
}

func TestWitnessRaceTBFReconfigure(t *testing.T) {
	wan, err := NewRouter(&RouterConfig{CIDR: "1.2.3.0/24", LoggerFactory: logging.NewDefaultLoggerFactory()})
	if err != nil {
		t.Fatal(err)
	}
	n, err := NewNet(&NetConfig{})
	if err != nil {
		t.Fatal(err)
	}
	tbf, err := NewTokenBucketFilter(n, TBFRate(1_000_000), TBFMaxBurst(8000))
	if err != nil {
		t.Fatal(err)
	}
	_ = wan
	stop := make(chan struct{})
	var wg sync.WaitGroup
	wg.Add(1)
	go func() {
		defer wg.Done()
		for i := 0; ; i++ {
			select {
			case <-stop:
				return
			default:
			}
			tbf.Set(TBFRate(1_000_000+i), TBFMaxBurst(8000+i%100))
		}
	}()
	time.Sleep(300 * time.Millisecond)
	close(stop)
	wg.Wait()
	_ = tbf.Close()
}
