package vnet

// Witness search for C15 (token bucket filter): over every interval between two forwarded chunks the forwarded bytes
// must not exceed maxBurst + rate * interval (plus a scheduling tolerance), forwarded chunks are an in-order,
// duplicate-free subsequence of the arrivals.

import (
	"net"
	"strconv"
	"sync"
	"testing"
	"time"
)

type wtbfEvent struct {
	at   time.Time
	size int
	id   int
}

func wtbfRun(t *testing.T, burst, rate int, pattern func(send func(n, size int), t0 time.Time)) []wtbfEvent {
	t.Helper()
	var mu sync.Mutex
	var evs []wtbfEvent
	nic := &mockNIC{}
	nic.mockOnInboundChunk = func(c Chunk) {
		id, _ := strconv.Atoi(string(c.UserData()[:8]))
		mu.Lock()
		evs = append(evs, wtbfEvent{time.Now(), len(c.UserData()), id})
		mu.Unlock()
	}
	t0 := time.Now()
	tbf, err := NewTokenBucketFilter(nic, TBFRate(rate), TBFMaxBurst(burst), TBFQueueSizeInBytes(1<<20))
	if err != nil {
		t.Fatal(err)
	}
	next := 0
	send := func(n, size int) {
		for i := 0; i < n; i++ {
			c := newChunkUDP(&net.UDPAddr{IP: net.ParseIP("1.2.3.4"), Port: 1}, &net.UDPAddr{IP: net.ParseIP("1.2.3.5"), Port: 2})
			c.userData = make([]byte, size)
			copy(c.userData, []byte(strconv.Itoa(100000000 + next)[1:]))
			next++
			tbf.onInboundChunk(c)
		}
	}
	pattern(send, t0)
	time.Sleep(20 * time.Millisecond)
	_ = tbf.Close()
	mu.Lock()
	defer mu.Unlock()
	return append([]wtbfEvent(nil), evs...)
}

func wtbfCheck(t *testing.T, name string, evs []wtbfEvent, burst, rate int, drained bool) {
	t.Helper()
	// order and duplicates
	last := -1
	for i, e := range evs {
		if e.id <= last {
			t.Fatalf("WITNESS %s: chunk #%d forwarded after #%d (reordered or duplicated)", name, e.id, last)
		}
		last = e.id
		_ = i
	}
	const tol = 3 * time.Millisecond
	for i := range evs {
		sum := 0
		for j := i; j < len(evs); j++ {
			sum += evs[j].size
			dt := evs[j].at.Sub(evs[i].at) + tol
			bound := float64(burst) + float64(rate)/8.0*dt.Seconds()
			if float64(sum) > bound {
				t.Fatalf("WITNESS %s: %d bytes forwarded within %v (chunks #%d..#%d): more than burst %d + rate %d bit/s x interval = %.0f",
					name, sum, evs[j].at.Sub(evs[i].at), evs[i].id, evs[j].id, burst, rate, bound)
			}
		}
	}
}

func TestWitnessTBF(t *testing.T) {
	const burst, rate = 12000, 1000000
	for rep := 0; rep < 3; rep++ {
		// full bucket drained shortly before the periodic refill comes due, then a second burst right after it
		for _, gap := range []time.Duration{95 * time.Millisecond, 90 * time.Millisecond, 60 * time.Millisecond} {
			evs := wtbfRun(t, burst, rate, func(send func(n, size int), t0 time.Time) {
				time.Sleep(time.Until(t0.Add(gap)))
				send(12, 1000)
				time.Sleep(time.Until(t0.Add(103 * time.Millisecond)))
				send(12, 1000)
				time.Sleep(5 * time.Millisecond)
			})
			// the burst window
			var live []wtbfEvent
			for _, e := range evs {
				if e.id < 24 && (len(live) == 0 || e.at.Sub(live[0].at) < 60*time.Millisecond) {
					live = append(live, e)
				}
			}
			wtbfCheck(t, "idle-burst-refill-burst gap="+gap.String(), live, burst, rate, false)
		}
	}
	// steady overload: 3x the rate for 300 ms
	evs := wtbfRun(t, burst, rate, func(send func(n, size int), t0 time.Time) {
		for i := 0; i < 100; i++ {
			send(1, 1200)
			time.Sleep(3 * time.Millisecond)
		}
	})
	var live []wtbfEvent
	for _, e := range evs {
		if len(live) == 0 || e.at.Sub(live[0].at) < 300*time.Millisecond {
			live = append(live, e)
		}
	}
	wtbfCheck(t, "steady overload", live, burst, rate, false)
}
