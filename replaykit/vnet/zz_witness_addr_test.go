package vnet

// Witness for C13 (router address assignment): an automatically assigned address must not collide with a
// statically assigned one.

import (
	"net"
	"testing"

	"github.com/pion/logging"
)

func TestWitnessRouterAssignsFreeAddress(t *testing.T) {
	for _, static := range []string{"10.0.0.1", "10.0.0.2", "10.0.0.3"} {
		r, err := NewRouter(&RouterConfig{CIDR: "10.0.0.0/24", LoggerFactory: logging.NewDefaultLoggerFactory()})
		if err != nil {
			t.Fatal(err)
		}
		n1, _ := NewNet(&NetConfig{StaticIPs: []string{static}})
		if err = r.AddNet(n1); err != nil {
			t.Fatal(err)
		}
		seen := map[string]bool{static: true}
		for i := 0; i < 4; i++ {
			n, _ := NewNet(&NetConfig{})
			if err = r.AddNet(n); err != nil {
				t.Fatal(err)
			}
			ifc, _ := n.InterfaceByName("eth0")
			addrs, _ := ifc.Addrs()
			for _, a := range addrs {
				ip := a.String()
				if i := len(ip) - 3; i > 0 && ip[i:] == "/24" {
					ip = ip[:i]
				}
				if seen[ip] {
					t.Fatalf("WITNESS router handed out %s twice (static %s, then automatic assignment)", ip, static)
				}
				seen[ip] = true
			}
		}
	}
}

// every address a router hands out lies inside its subnet (or attaching fails), also for subnets narrower than /24
func TestWitnessRouterSubnet(t *testing.T) {
	for _, cidr := range []string{"10.0.0.0/25", "10.0.0.128/25", "10.0.0.16/28", "10.0.0.0/24"} {
		_, ipnet, _ := net.ParseCIDR(cidr)
		r, err := NewRouter(&RouterConfig{CIDR: cidr, LoggerFactory: logging.NewDefaultLoggerFactory()})
		if err != nil {
			t.Fatal(err)
		}
		for i := 0; i < 260; i++ {
			n, _ := NewNet(&NetConfig{})
			if err = r.AddNet(n); err != nil {
				continue
			}
			ifc, _ := n.InterfaceByName("eth0")
			addrs, _ := ifc.Addrs()
			for _, a := range addrs {
				ip, _, perr := net.ParseCIDR(a.String())
				if perr != nil {
					continue
				}
				if !ipnet.Contains(ip) {
					t.Fatalf("WITNESS router %s attached NIC #%d with %s, outside its subnet, without an error", cidr, i, ip)
				}
			}
		}
	}
}
