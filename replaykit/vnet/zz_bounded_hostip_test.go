package vnet

// Bounded stand-in for Net.hasIPAddr and Net.getAllIPAddrs (C13): their nested scans over the interfaces' address lists
// are under a *trusted* contract in the proof (uninterpreted predicate hostHas); here they are compared with a reference
// definition on every host with up to 2 interfaces carrying up to 3 addresses each, drawn from IPv4 / IPv6 / loopback
// addresses in *net.IPNet and *net.IPAddr form, for every query IP of the pool plus 0.0.0.0, :: and a foreign address.
// Labelled `bounded` in the evidence, never counted as proved.

import (
	"net"
	"testing"

	"github.com/pion/transport/v3"
)

func TestBoundedHostIP(t *testing.T) {
	pool := []string{"1.2.3.4", "10.0.0.7", "127.0.0.1", "fe80::1", "2001:db8::5"}
	queries := append(append([]string{}, pool...), "0.0.0.0", "::", "9.9.9.9", "2001:db8::99")
	mk := func(s string, form int) net.Addr {
		ip := net.ParseIP(s)
		if form == 0 {
			return &net.IPNet{IP: ip, Mask: net.CIDRMask(24, 32)}
		}
		return &net.IPAddr{IP: ip}
	}
	cases := 0
	// every list of up to 3 (address, form) items per interface is enumerated through a mixed-radix counter
	items := len(pool) * 2
	var lists [][]int
	lists = append(lists, []int{})
	for a := 0; a < items; a++ {
		lists = append(lists, []int{a})
		for b := 0; b < items; b++ {
			lists = append(lists, []int{a, b})
		}
	}
	for a := 0; a < items; a += 3 { // a thinner slice of the 3-element lists
		for b := 1; b < items; b += 3 {
			for c := 2; c < items; c += 3 {
				lists = append(lists, []int{a, b, c})
			}
		}
	}
	build := func(l []int, name string) *transport.Interface {
		ifc := transport.NewInterface(net.Interface{Index: 1, MTU: 1500, Name: name, Flags: net.FlagUp})
		for _, it := range l {
			ifc.AddAddress(mk(pool[it/2], it%2))
		}
		return ifc
	}
	for n1, l1 := range lists {
		for n2 := 0; n2 < len(lists); n2 += 7 {
			l2 := lists[(n2+n1)%len(lists)]
			v := &Net{interfaces: []*transport.Interface{build(l1, "eth0"), build(l2, "eth1")}, udpConns: newUDPConnMap()}
			var all []net.IP
			for _, l := range [][]int{l1, l2} {
				for _, it := range l {
					all = append(all, net.ParseIP(pool[it/2]))
				}
			}
			for _, q := range queries {
				qip := net.ParseIP(q)
				want := false
				for _, ip := range all {
					switch q {
					case "0.0.0.0":
						want = want || ip.To4() != nil
					case "::":
						want = want || ip.To4() == nil
					default:
						want = want || ip.Equal(qip)
					}
				}
				cases++
				if got := v.hasIPAddr(qip); got != want {
					t.Fatalf("BOUNDED-FAIL hasIPAddr(%s) = %v, want %v on interfaces %v / %v", q, got, want, l1, l2)
				}
			}
			// getAllIPAddrs(false): exactly the IPv4 addresses of the host, in interface order
			var want4 []string
			for _, ip := range all {
				if ip.To4() != nil {
					want4 = append(want4, ip.String())
				}
			}
			got4 := v.getAllIPAddrs(false)
			cases++
			if len(got4) != len(want4) {
				t.Fatalf("BOUNDED-FAIL getAllIPAddrs(false) = %v, want %v", got4, want4)
			}
			for i := range got4 {
				if got4[i].String() != want4[i] {
					t.Fatalf("BOUNDED-FAIL getAllIPAddrs(false) = %v, want %v", got4, want4)
				}
			}
		}
	}
	t.Logf("BOUNDED-OK %d cases", cases)
}
