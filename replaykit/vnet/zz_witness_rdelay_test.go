package vnet

// Witness search for C14 (router): chunks pushed into a router with a minimum delay (and optional jitter) reach the
// destination NIC in push order, each exactly once, and never sooner than the minimum delay after the push.

import (
	"net"
	"os"
	"strconv"
	"sync"
	"testing"
	"time"

	"github.com/pion/logging"
)

func TestWitnessRouterDelay(t *testing.T) {
	budget := 8 * time.Second
	if s := os.Getenv("GOVC_WITNESS_SECONDS"); s != "" {
		if v, err := strconv.Atoi(s); err == nil {
			budget = time.Duration(v) * time.Second / 2
		}
	}
	start := time.Now()
	for round := 0; time.Since(start) < budget; round++ {
		for _, cfg := range []struct{ min, jit time.Duration }{{0, 0}, {300 * time.Microsecond, 0}, {5 * time.Millisecond, 0}, {3 * time.Millisecond, 2 * time.Millisecond}} {
			router, err := NewRouter(&RouterConfig{CIDR: "1.2.3.0/24", MinDelay: cfg.min, MaxJitter: cfg.jit, LoggerFactory: logging.NewDefaultLoggerFactory()})
			if err != nil {
				t.Fatal(err)
			}
			nic := make([]*dummyNIC, 2)
			ip := make([]*net.UDPAddr, 2)
			for i := 0; i < 2; i++ {
				anic, _ := NewNet(&NetConfig{})
				nic[i] = &dummyNIC{Net: anic}
				if err = router.AddNet(nic[i]); err != nil {
					t.Fatal(err)
				}
				eth0, _ := nic[i].getInterface("eth0")
				addrs, _ := eth0.Addrs()
				ip[i] = &net.UDPAddr{IP: addrs[0].(*net.IPNet).IP, Port: 1111 * (i + 1)} //nolint:forcetypeassert
			}
			var mu sync.Mutex
			var got []string
			var when []time.Time
			nic[0].onInboundChunkHandler = func(Chunk) {}
			nic[1].onInboundChunkHandler = func(c Chunk) {
				mu.Lock()
				got = append(got, string(c.UserData()))
				when = append(when, time.Now())
				mu.Unlock()
			}
			if err = router.Start(); err != nil {
				t.Fatal(err)
			}
			const n = 120
			pushed := make([]time.Time, n)
			for i := 0; i < n; i++ {
				c := newChunkUDP(ip[0], ip[1])
				c.userData = []byte(strconv.Itoa(i))
				pushed[i] = time.Now()
				router.push(c)
				switch (i + round) % 4 {
				case 0:
				case 1:
					time.Sleep(cfg.min)
				case 2:
					time.Sleep(cfg.min / 2)
				default:
					time.Sleep(20 * time.Microsecond)
				}
			}
			deadline := time.Now().Add(cfg.min + cfg.jit*time.Duration(n) + 300*time.Millisecond)
			for time.Now().Before(deadline) {
				mu.Lock()
				k := len(got)
				mu.Unlock()
				if k >= n {
					break
				}
				time.Sleep(time.Millisecond)
			}
			_ = router.Stop()
			mu.Lock()
			for k, s := range got {
				if s != strconv.Itoa(k) {
					t.Fatalf("WITNESS minDelay=%v jitter=%v round=%d: %d-th delivered chunk is #%s (reordered, duplicated or dropped)", cfg.min, cfg.jit, round, k, s)
				}
				if d := when[k].Sub(pushed[k]); d < cfg.min {
					t.Fatalf("WITNESS minDelay=%v jitter=%v round=%d: chunk #%d delivered %v after it entered the router, sooner than the minimum delay", cfg.min, cfg.jit, round, k, d)
				}
			}
			if len(got) != n {
				t.Fatalf("WITNESS minDelay=%v jitter=%v round=%d: %d of %d chunks delivered while the router was running", cfg.min, cfg.jit, round, len(got), n)
			}
			mu.Unlock()
		}
	}
}
