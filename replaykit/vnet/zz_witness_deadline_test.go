package vnet

// Witness search for C10 on vnet UDP sockets: no spurious / early time-out, expiry persists until reset.

import (
	"errors"
	"net"
	"testing"
	"time"
)

type wObs struct{}

func (wObs) write(Chunk) error                                  { return nil }
func (wObs) onClosed(net.Addr)                                  {}
func (wObs) determineSourceIP(locIP, dstIP net.IP) net.IP { return locIP }

func wIsTimeout(err error) bool {
	var ne net.Error
	return errors.As(err, &ne) && ne.Timeout()
}

func wReadWithin(c *UDPConn, d time.Duration) (err error, returned bool, took time.Duration) {
	ch := make(chan error, 1)
	t0 := time.Now()
	go func() {
		_, _, e := c.ReadFrom(make([]byte, 100))
		ch <- e
	}()
	select {
	case e := <-ch:
		return e, true, time.Since(t0)
	case <-time.After(d):
		return nil, false, d
	}
}

func TestWitnessUDPConnDeadline(t *testing.T) {
	loc := &net.UDPAddr{IP: net.ParseIP("1.2.3.4"), Port: 5000}
	// (1) expiry persists: after a deadline passed, every read fails with a time-out until it is set again
	c, err := newUDPConn(loc, nil, wObs{})
	if err != nil {
		t.Fatal(err)
	}
	_ = c.SetReadDeadline(time.Now().Add(30 * time.Millisecond))
	e, ret, _ := wReadWithin(c, time.Second)
	if !ret || !wIsTimeout(e) {
		t.Fatalf("WITNESS first read after a 30ms deadline: returned=%v err=%v", ret, e)
	}
	e, ret, _ = wReadWithin(c, time.Second)
	if !ret || !wIsTimeout(e) {
		t.Fatalf("WITNESS second read after the deadline passed did not fail with a time-out (returned=%v err=%v): expiry does not persist", ret, e)
	}
	// (2) no spurious time-out: deadline passes unobserved, then is extended; the next read must wait for the new one
	c2, _ := newUDPConn(loc, nil, wObs{})
	_ = c2.SetReadDeadline(time.Now().Add(20 * time.Millisecond))
	time.Sleep(60 * time.Millisecond)
	_ = c2.SetReadDeadline(time.Now().Add(700 * time.Millisecond))
	e, ret, took := wReadWithin(c2, 2*time.Second)
	if ret && wIsTimeout(e) && took < 500*time.Millisecond {
		t.Fatalf("WITNESS read timed out after %v although the deadline had been extended by 700ms (stale expiry)", took)
	}
	// (3) zero deadline clears an expired one
	c3, _ := newUDPConn(loc, nil, wObs{})
	_ = c3.SetReadDeadline(time.Now().Add(10 * time.Millisecond))
	time.Sleep(40 * time.Millisecond)
	_ = c3.SetReadDeadline(time.Time{})
	_, ret, _ = wReadWithin(c3, 300*time.Millisecond)
	if ret {
		t.Fatalf("WITNESS read returned although the deadline was cleared and no data arrived")
	}
}
