package vnet

// Witness search for C01 (end to end): two LAN hosts behind a NAT and a WAN host exchange numbered datagrams of
// various sizes; every datagram must arrive at most once, byte-identical, in order per sender, only at the socket bound
// to its destination, showing the sender's NAT-translated source, to which a reply reaches the original sender; the
// writer overwrites its buffer right after the write.

import (
	"bytes"
	"fmt"
	"net"
	"sync"
	"testing"
	"time"

	"github.com/pion/logging"
)

func TestWitnessE2E(t *testing.T) {
	lf := logging.NewDefaultLoggerFactory()
	for round := 0; round < 6; round++ {
		wan, err := NewRouter(&RouterConfig{CIDR: "1.2.3.0/24", QueueSize: 4000, LoggerFactory: lf})
		if err != nil {
			t.Fatal(err)
		}
		net0, _ := NewNet(&NetConfig{StaticIPs: []string{"1.2.3.4"}})
		if err = wan.AddNet(net0); err != nil {
			t.Fatal(err)
		}
		lan, err := NewRouter(&RouterConfig{CIDR: "192.168.0.0/24", QueueSize: 4000, LoggerFactory: lf,
			MinDelay: time.Duration(round%3) * 200 * time.Microsecond})
		if err != nil {
			t.Fatal(err)
		}
		hosts := make([]*Net, 2)
		for i := range hosts {
			hosts[i], _ = NewNet(&NetConfig{})
			if err = lan.AddNet(hosts[i]); err != nil {
				t.Fatal(err)
			}
		}
		if err = wan.AddRouter(lan); err != nil {
			t.Fatal(err)
		}
		if err = wan.Start(); err != nil {
			t.Fatal(err)
		}
		server, err := net0.ListenPacket("udp4", "1.2.3.4:5000")
		if err != nil {
			t.Fatal(err)
		}
		other, err := net0.ListenPacket("udp4", "1.2.3.4:5001") // must never receive anything
		if err != nil {
			t.Fatal(err)
		}
		var mu sync.Mutex
		type rec struct {
			from    string
			payload []byte
		}
		var atServer []rec
		stray := 0
		go func() {
			buf := make([]byte, 2000)
			for {
				if _, _, e := other.ReadFrom(buf); e != nil {
					return
				}
				mu.Lock()
				stray++
				mu.Unlock()
			}
		}()
		go func() {
			buf := make([]byte, 2000)
			for {
				n, from, e := server.ReadFrom(buf)
				if e != nil {
					return
				}
				mu.Lock()
				atServer = append(atServer, rec{from.String(), append([]byte(nil), buf[:n]...)})
				mu.Unlock()
				_, _ = server.WriteTo(buf[:n], from) // echo to the translated source
			}
		}()
		const n = 150
		var wg sync.WaitGroup
		echoes := make([][][]byte, len(hosts))
		conns := make([]net.PacketConn, len(hosts))
		for h := range hosts {
			conns[h], err = hosts[h].ListenPacket("udp4", "0.0.0.0:1234")
			if err != nil {
				t.Fatal(err)
			}
			wg.Add(1)
			go func(h int) {
				defer wg.Done()
				buf := make([]byte, 2000)
				for len(echoes[h]) < n {
					_ = conns[h].SetReadDeadline(time.Now().Add(500 * time.Millisecond))
					k, _, e := conns[h].ReadFrom(buf)
					if e != nil {
						return
					}
					echoes[h] = append(echoes[h], append([]byte(nil), buf[:k]...))
				}
			}(h)
		}
		mk := func(h, i int) []byte {
			size := (i*37 + h*11 + round) % 1400
			if i%17 == 0 {
				size = 0
			}
			b := make([]byte, 8+size)
			copy(b, fmt.Sprintf("%01d%07d", h, i))
			for k := 8; k < len(b); k++ {
				b[k] = byte(k*31 + i + h)
			}
			return b
		}
		for h := range hosts {
			wg.Add(1)
			go func(h int) {
				defer wg.Done()
				scratch := make([]byte, 1500)
				for i := 0; i < n; i++ {
					m := mk(h, i)
					copy(scratch, m)
					if _, e := conns[h].WriteTo(scratch[:len(m)], &net.UDPAddr{IP: net.ParseIP("1.2.3.4"), Port: 5000}); e != nil {
						t.Errorf("write: %v", e)
						return
					}
					for k := range scratch[:len(m)] { // the caller may overwrite its buffer as soon as the write returns
						scratch[k] = 0xEE
					}
					if i%8 == 0 {
						time.Sleep(100 * time.Microsecond)
					}
				}
			}(h)
		}
		wg.Wait()
		_ = wan.Stop()
		mu.Lock()
		if stray != 0 {
			t.Fatalf("WITNESS round=%d: %d datagrams delivered to a socket they were not addressed to", round, stray)
		}
		next := map[byte]int{}
		srcOf := map[byte]string{}
		for _, r := range atServer {
			if len(r.payload) < 8 {
				t.Fatalf("WITNESS round=%d: truncated datagram %q at the server", round, r.payload)
			}
			h := r.payload[0]
			var idx int
			_, _ = fmt.Sscanf(string(r.payload[1:8]), "%d", &idx)
			if idx != next[h] {
				t.Fatalf("WITNESS round=%d: sender %c: datagram #%d arrived where #%d was due (lost, duplicated or reordered)", round, h, idx, next[h])
			}
			next[h]++
			if !bytes.Equal(r.payload, mk(int(h-'0'), idx)) {
				t.Fatalf("WITNESS round=%d: sender %c datagram #%d arrived with a modified payload", round, h, idx)
			}
			if srcOf[h] == "" {
				srcOf[h] = r.from
			} else if srcOf[h] != r.from {
				t.Fatalf("WITNESS round=%d: sender %c shows two different translated sources %s / %s", round, h, srcOf[h], r.from)
			}
			if ip, _, _ := net.SplitHostPort(r.from); ip != "1.2.3.1" && ip != "1.2.3.2" && ip != "1.2.3.3" && ip[:6] != "1.2.3." {
				t.Fatalf("WITNESS round=%d: source %s is not an address of the NAT", round, r.from)
			}
		}
		for h := range hosts {
			if next[byte('0'+h)] != n {
				t.Fatalf("WITNESS round=%d: %d of %d datagrams of sender %d reached the server (queues below capacity, no loss configured)", round, next[byte('0'+h)], n, h)
			}
			if srcOf['0'] == srcOf['1'] {
				t.Fatalf("WITNESS round=%d: both LAN sockets show the same translated source %s", round, srcOf['0'])
			}
			for i, e := range echoes[h] {
				if !bytes.Equal(e, mk(h, i)) {
					t.Fatalf("WITNESS round=%d: echo #%d to sender %d is not its own datagram #%d (reply to the translated source went elsewhere, or out of order)", round, i, h, i)
				}
			}
			if len(echoes[h]) != n {
				t.Fatalf("WITNESS round=%d: sender %d got %d of %d echoes back", round, h, len(echoes[h]), n)
			}
		}
		mu.Unlock()
	}
}
