package vnet

// Witness search for C13 (host side): random histories of ListenUDP / DialUDP / ListenPacket / Close / inbound
// datagrams on a host with two addresses plus loopback, compared with a reference table of open sockets.
// Prints "WITNESS ..." and fails on the first divergence from the property:
//   bind succeeds exactly when the IP belongs to the host and no open socket covers IP:port (a wildcard conflicts
//   with every bind on the port; port 0 picks a free port in 5000-5999), closing frees the address, an inbound
//   datagram goes to the open socket covering its destination, and the caller's address struct is left alone.

import (
	"fmt"
	"math/rand"
	"net"
	"testing"

	"github.com/pion/logging"
)

type wsock struct {
	ip   string // "0.0.0.0" for wildcard
	port int
	conn *UDPConn
}

func wcovers(a, b string) bool { return a == "0.0.0.0" || b == "0.0.0.0" || a == b }

func TestWitnessSockets(t *testing.T) {
	hostIPs := []string{"1.2.3.4", "1.2.3.5", "127.0.0.1"}
	candidates := []string{"1.2.3.4", "1.2.3.5", "127.0.0.1", "0.0.0.0", "", "9.9.9.9"}
	for seed := int64(1); seed <= 60; seed++ {
		rng := rand.New(rand.NewSource(seed)) //nolint:gosec
		r, err := NewRouter(&RouterConfig{CIDR: "1.2.3.0/24", LoggerFactory: logging.NewDefaultLoggerFactory()})
		if err != nil {
			t.Fatal(err)
		}
		v, err := NewNet(&NetConfig{StaticIPs: []string{"1.2.3.4", "1.2.3.5"}})
		if err != nil {
			t.Fatal(err)
		}
		if err = r.AddNet(v); err != nil {
			t.Fatal(err)
		}
		var open []wsock
		belongs := func(ip string) bool {
			if ip == "0.0.0.0" {
				return true
			}
			for _, h := range hostIPs {
				if h == ip {
					return true
				}
			}
			return false
		}
		conflict := func(ip string, port int) bool {
			for _, s := range open {
				if s.port == port && wcovers(s.ip, ip) {
					return true
				}
			}
			return false
		}
		var reuse *net.UDPAddr // an address struct the caller keeps and passes again
		for step := 0; step < 60; step++ {
			switch op := rng.Intn(10); {
			case op < 5: // bind
				ipS := candidates[rng.Intn(len(candidates))]
				port := 0
				if rng.Intn(3) > 0 {
					port = 7000 + rng.Intn(4)
				}
				var la *net.UDPAddr
				if reuse != nil && rng.Intn(4) == 0 {
					la = reuse
					ipS = ""
					if la.IP != nil {
						ipS = la.IP.String()
					}
					port = la.Port
				} else {
					la = &net.UDPAddr{Port: port}
					if ipS != "" {
						la.IP = net.ParseIP(ipS)
					}
					if rng.Intn(3) == 0 {
						reuse = la
					}
				}
				want := ipS
				if want == "" {
					want = "0.0.0.0"
				}
				wasIP, wasPort := la.IP, la.Port
				var c *UDPConn
				var cerr error
				switch rng.Intn(3) {
				case 0:
					tc, e := v.ListenUDP("udp", la)
					cerr = e
					if e == nil {
						c = tc.(*UDPConn) //nolint:forcetypeassert
					}
				case 1:
					tc, e := v.DialUDP("udp", la, &net.UDPAddr{IP: net.ParseIP("1.2.3.99"), Port: 9})
					cerr = e
					if e == nil {
						c = tc.(*UDPConn) //nolint:forcetypeassert
					}
				default:
					tc, e := v.ListenPacket("udp", fmt.Sprintf("%s:%d", want, port))
					cerr = e
					if e == nil {
						c = tc.(*UDPConn) //nolint:forcetypeassert
					}
				}
				if la.Port != wasPort || !la.IP.Equal(wasIP) || (la.IP == nil) != (wasIP == nil) {
					t.Fatalf("WITNESS seed=%d step=%d: bind modified the caller's address struct: %v:%d -> %v:%d",
						seed, step, wasIP, wasPort, la.IP, la.Port)
				}
				if port != 0 {
					expect := belongs(want) && !conflict(want, port)
					if (cerr == nil) != expect {
						t.Fatalf("WITNESS seed=%d step=%d: bind %s:%d err=%v, expected success=%v (open=%v)", seed, step, want, port, cerr, expect, open)
					}
				} else {
					if !belongs(want) && cerr == nil {
						t.Fatalf("WITNESS seed=%d step=%d: bind %s:0 succeeded on a foreign IP", seed, step, want)
					}
					if belongs(want) && cerr != nil {
						t.Fatalf("WITNESS seed=%d step=%d: bind %s:0 failed (%v) although ports are free (open=%v)", seed, step, want, cerr, open)
					}
				}
				if cerr == nil {
					got := c.LocalAddr().(*net.UDPAddr) //nolint:forcetypeassert
					if got.IP.String() != want {
						t.Fatalf("WITNESS seed=%d step=%d: bound IP %s, requested %s", seed, step, got.IP, want)
					}
					if port != 0 && got.Port != port {
						t.Fatalf("WITNESS seed=%d step=%d: bound port %d, requested %d", seed, step, got.Port, port)
					}
					if port == 0 && (got.Port < 5000 || got.Port > 5999) {
						t.Fatalf("WITNESS seed=%d step=%d: port 0 picked %d outside 5000-5999", seed, step, got.Port)
					}
					if conflict(want, got.Port) {
						t.Fatalf("WITNESS seed=%d step=%d: bound %s:%d which an open socket already covers (open=%v)", seed, step, want, got.Port, open)
					}
					open = append(open, wsock{want, got.Port, c})
				}
			case op < 7: // close
				if len(open) == 0 {
					continue
				}
				i := rng.Intn(len(open))
				s := open[i]
				if err := s.conn.Close(); err != nil {
					t.Fatalf("WITNESS seed=%d step=%d: close of %s:%d: %v", seed, step, s.ip, s.port, err)
				}
				open = append(open[:i], open[i+1:]...)
				// the address is free again
				if !conflict(s.ip, s.port) {
					ip := s.ip
					tc, e := v.ListenUDP("udp", &net.UDPAddr{IP: net.ParseIP(ip), Port: s.port})
					if e != nil {
						t.Fatalf("WITNESS seed=%d step=%d: %s:%d not free after Close: %v", seed, step, s.ip, s.port, e)
					}
					open = append(open, wsock{s.ip, s.port, tc.(*UDPConn)}) //nolint:forcetypeassert
				}
			case op < 8: // the caller scribbles on the struct it keeps
				if reuse != nil {
					reuse = &net.UDPAddr{IP: reuse.IP, Port: reuse.Port} // (a fresh copy: writes to the original are tested by the frame check above)
				}
			default: // inbound datagram
				dst := hostIPs[rng.Intn(len(hostIPs))]
				port := 7000 + rng.Intn(4)
				if len(open) > 0 && rng.Intn(2) == 0 {
					port = open[rng.Intn(len(open))].port
				}
				var target *UDPConn
				for _, s := range open {
					if s.port == port && wcovers(s.ip, dst) {
						target = s.conn
					}
				}
				before := map[*UDPConn]int{}
				for _, s := range open {
					before[s.conn] = len(s.conn.readCh)
				}
				ch := newChunkUDP(&net.UDPAddr{IP: net.ParseIP("1.2.3.99"), Port: 9}, &net.UDPAddr{IP: net.ParseIP(dst), Port: port})
				v.onInboundChunk(ch)
				for _, s := range open {
					d := len(s.conn.readCh) - before[s.conn]
					if s.conn == target && d != 1 {
						t.Fatalf("WITNESS seed=%d step=%d: datagram for %s:%d not handed to the covering socket %s:%d", seed, step, dst, port, s.ip, s.port)
					}
					if s.conn != target && d != 0 {
						t.Fatalf("WITNESS seed=%d step=%d: datagram for %s:%d handed to %s:%d", seed, step, dst, port, s.ip, s.port)
					}
				}
			}
		}
		for _, s := range open {
			_ = s.conn.Close()
		}
	}
}

// F16: the address struct passed to ListenUDP stays the caller's.
func TestWitnessCallerAddress(t *testing.T) {
	r, _ := NewRouter(&RouterConfig{CIDR: "1.2.3.0/24", LoggerFactory: logging.NewDefaultLoggerFactory()})
	v, _ := NewNet(&NetConfig{StaticIPs: []string{"1.2.3.4"}})
	if err := r.AddNet(v); err != nil {
		t.Fatal(err)
	}
	la := &net.UDPAddr{IP: net.ParseIP("1.2.3.4"), Port: 0}
	c1, err := v.ListenUDP("udp", la)
	if err != nil {
		t.Fatal(err)
	}
	if la.Port != 0 {
		t.Fatalf("WITNESS ListenUDP(&UDPAddr{1.2.3.4, 0}) wrote port %d into the caller's struct; a second zero-port bind with it is refused: %v",
			la.Port, func() error { _, e := v.ListenUDP("udp", la); return e }())
	}
	// the caller re-uses its struct: the socket's own address must not follow
	la.Port = 6000
	if got := c1.LocalAddr().(*net.UDPAddr).Port; got == 6000 { //nolint:forcetypeassert
		t.Fatalf("WITNESS the socket shares the caller's address struct: LocalAddr().Port follows the caller's write (%d)", got)
	}
	p := c1.LocalAddr().(*net.UDPAddr).Port //nolint:forcetypeassert
	_ = c1.Close()
	if _, err = v.ListenUDP("udp", &net.UDPAddr{IP: net.ParseIP("1.2.3.4"), Port: p}); err != nil {
		t.Fatalf("WITNESS port %d not freed by Close: %v", p, err)
	}
}

// port 0 fails only when the whole range 5000-5999 is covered for the requested IP: many sockets elsewhere do not count,
// and a completely covered range does.
func TestWitnessPortZero(t *testing.T) {
	r, _ := NewRouter(&RouterConfig{CIDR: "1.2.3.0/24", LoggerFactory: logging.NewDefaultLoggerFactory()})
	v, _ := NewNet(&NetConfig{StaticIPs: []string{"1.2.3.4", "1.2.3.5"}})
	if err := r.AddNet(v); err != nil {
		t.Fatal(err)
	}
	for p := 6000; p < 7000; p++ { // 1000 sockets outside the ephemeral range
		if _, err := v.ListenUDP("udp", &net.UDPAddr{IP: net.ParseIP("1.2.3.4"), Port: p}); err != nil {
			t.Fatal(err)
		}
	}
	for p := 5000; p < 5100; p++ { // and some inside, on the other IP
		if _, err := v.ListenUDP("udp", &net.UDPAddr{IP: net.ParseIP("1.2.3.5"), Port: p}); err != nil {
			t.Fatal(err)
		}
	}
	c, err := v.ListenUDP("udp", &net.UDPAddr{IP: net.ParseIP("1.2.3.4"), Port: 0})
	if err != nil {
		t.Fatalf("WITNESS port-0 bind on 1.2.3.4 failed (%v) although the whole range 5000-5999 is free for that IP", err)
	}
	_ = c.Close()
	// fill the range for 1.2.3.4 completely: now, and only now, port 0 must fail
	for p := 5000; p < 6000; p++ {
		if _, err := v.ListenUDP("udp", &net.UDPAddr{IP: net.ParseIP("1.2.3.4"), Port: p}); err != nil {
			t.Fatalf("WITNESS explicit bind 1.2.3.4:%d refused: %v", p, err)
		}
	}
	if c, err = v.ListenUDP("udp", &net.UDPAddr{IP: net.ParseIP("1.2.3.4"), Port: 0}); err == nil {
		t.Fatalf("WITNESS port-0 bind succeeded with port %d although every port of the range is taken", c.LocalAddr().(*net.UDPAddr).Port) //nolint:forcetypeassert
	}
}
