package vnet

// Witness search for C14 (delay filter): producers push numbered chunks with various delays and arrival patterns;
// a recording NIC checks that every chunk leaves in arrival order, exactly once, unmodified and not before its delay
// has passed; a panic of the forwarding loop is caught and reported.

import (
	"context"
	"fmt"
	"net"
	"os"
	"strconv"
	"sync"
	"testing"
	"time"
)

type wdNIC struct {
	mockNIC
	mu   sync.Mutex
	got  []string
	when []time.Time
}

func newWdNIC() *wdNIC {
	n := &wdNIC{}
	n.mockNIC.mockOnInboundChunk = func(c Chunk) {
		n.mu.Lock()
		n.got = append(n.got, string(c.UserData()))
		n.when = append(n.when, time.Now())
		n.mu.Unlock()
	}
	return n
}

func TestWitnessDelayFilter(t *testing.T) {
	budget := 8 * time.Second
	if s := os.Getenv("GOVC_WITNESS_SECONDS"); s != "" {
		if v, err := strconv.Atoi(s); err == nil {
			budget = time.Duration(v) * time.Second / 2
		}
	}
	start := time.Now()
	for round := 0; time.Since(start) < budget; round++ {
		for _, delay := range []time.Duration{0, 50 * time.Microsecond, 2 * time.Millisecond, 10 * time.Millisecond} {
			nic := newWdNIC()
			f, err := NewDelayFilter(nic, delay)
			if err != nil {
				t.Fatal(err)
			}
			ctx, cancel := context.WithCancel(context.Background())
			panicked := make(chan string, 1)
			done := make(chan struct{})
			go func() {
				defer close(done)
				defer func() {
					if r := recover(); r != nil {
						panicked <- fmt.Sprint(r)
					}
				}()
				f.Run(ctx)
			}()
			const n = 200
			const producers = 4
			sent := make([][]time.Time, producers)
			pushDone := make(chan struct{})
			var wg sync.WaitGroup
			for p := 0; p < producers; p++ {
				sent[p] = make([]time.Time, n)
				wg.Add(1)
				go func(p int) {
					defer wg.Done()
					for i := 0; i < n; i++ {
						c := newChunkUDP(&net.UDPAddr{IP: net.ParseIP("1.2.3.4"), Port: 1}, &net.UDPAddr{IP: net.ParseIP("1.2.3.5"), Port: 2})
						c.userData = []byte(strconv.Itoa(p) + ":" + strconv.Itoa(i))
						sent[p][i] = time.Now()
						sendDone := make(chan struct{})
						go func() { f.onInboundChunk(c); close(sendDone) }()
						select {
						case <-sendDone:
						case <-done: // the loop died
							return
						case <-time.After(2 * time.Second):
							return
						}
						switch (i + round + p) % 4 {
						case 0:
						case 1:
							time.Sleep(delay)
						case 2:
							time.Sleep(delay / 2)
						default:
							time.Sleep(30 * time.Microsecond)
						}
					}
				}(p)
			}
			go func() { wg.Wait(); close(pushDone) }()
			select {
			case <-pushDone:
			case msg := <-panicked:
				t.Fatalf("WITNESS delay=%v round=%d: the forwarding loop panicked: %s", delay, round, msg)
			}
			deadline := time.Now().Add(delay + 500*time.Millisecond)
			for time.Now().Before(deadline) {
				nic.mu.Lock()
				k := len(nic.got)
				nic.mu.Unlock()
				if k >= n*producers {
					break
				}
				select {
				case msg := <-panicked:
					t.Fatalf("WITNESS delay=%v round=%d: the forwarding loop panicked: %s", delay, round, msg)
				case <-time.After(time.Millisecond):
				}
			}
			cancel()
			select {
			case msg := <-panicked:
				t.Fatalf("WITNESS delay=%v round=%d: the forwarding loop panicked: %s", delay, round, msg)
			case <-done:
			case <-time.After(time.Second):
			}
			nic.mu.Lock()
			next := make([]int, producers)
			for k, s := range nic.got {
				var p, i int
				if _, err := fmt.Sscanf(s, "%d:%d", &p, &i); err != nil {
					t.Fatalf("WITNESS delay=%v round=%d: forwarded chunk with modified payload %q", delay, round, s)
				}
				if i != next[p] {
					t.Fatalf("WITNESS delay=%v round=%d: producer %d: chunk #%d forwarded where #%d was due (reordered, duplicated or dropped)", delay, round, p, i, next[p])
				}
				next[p]++
				if d := nic.when[k].Sub(sent[p][i]); d < delay {
					t.Fatalf("WITNESS delay=%v round=%d: chunk %s forwarded %v after arrival, sooner than the delay", delay, round, s, d)
				}
			}
			nic.mu.Unlock()
		}
	}
}
