package vnet

// Witness search for failed NAT obligations (C02/C03): histories of outbound / inbound translations on the real
// networkAddressTranslator against the RFC 4787 rules stated by the properties.

import (
	"fmt"
	"math/rand"
	"net"
	"os"
	"strconv"
	"testing"
	"time"

	"github.com/pion/logging"
)

func wNATSeed() int64 {
	if s, err := strconv.ParseInt(os.Getenv("VERIF_SEED"), 10, 64); err == nil {
		return s
	}
	return 1
}

func wNewNAT(t *testing.T, mb, fb EndpointDependencyType, life time.Duration) *networkAddressTranslator {
	n, err := newNAT(&natConfig{
		natType:       NATType{MappingBehavior: mb, FilteringBehavior: fb, MappingLifeTime: life},
		mappedIPs:     []net.IP{net.ParseIP("27.1.1.1")},
		loggerFactory: logging.NewDefaultLoggerFactory(),
	})
	if err != nil {
		t.Fatal(err)
	}
	return n
}

// every external address has a valid port, even after many mappings (the port range must not be left)
func TestWitnessNATPorts(t *testing.T) {
	n := wNewNAT(t, EndpointIndependent, EndpointIndependent, time.Hour)
	dst := &net.UDPAddr{IP: net.ParseIP("5.6.7.8"), Port: 4000}
	seen := map[string]string{}
	for i := 0; i < 16500; i++ {
		src := &net.UDPAddr{IP: net.IPv4(192, 168, byte(i>>8), byte(i)), Port: 1000 + i%50000}
		out, err := n.translateOutbound(newChunkUDP(src, dst))
		if err != nil {
			t.Fatalf("WITNESS outbound translation #%d failed: %v (C02: every external address has a valid UDP port; the router loop dies on this error)", i+1, err)
		}
		if out == nil {
			continue // no free port: dropped
		}
		ext := out.SourceAddr().String()
		if prev, dup := seen[ext]; dup {
			t.Fatalf("WITNESS external address %s given to %s and to %s while both mappings are live", ext, prev, src)
		}
		seen[ext] = src.String()
		p := out.SourceAddr().(*net.UDPAddr).Port //nolint:forcetypeassert
		if p < 1 || p > 65535 {
			t.Fatalf("WITNESS invalid external port %d", p)
		}
	}
}

func TestWitnessNATRules(t *testing.T) {
	rng := rand.New(rand.NewSource(wNATSeed()))
	budget := 10 * time.Second
	if s, err := strconv.Atoi(os.Getenv("GOVC_WITNESS_SECONDS")); err == nil {
		budget = time.Duration(s) * time.Second / 2
	}
	deadline := time.Now().Add(budget)
	types := []EndpointDependencyType{EndpointIndependent, EndpointAddrDependent, EndpointAddrPortDependent}
	for time.Now().Before(deadline) {
		mb, fb := types[rng.Intn(3)], types[rng.Intn(3)]
		n := wNewNAT(t, mb, fb, time.Hour)
		type perm struct{ ext, remote string }
		extOf := map[string]string{} // mapping key -> external addr
		owner := map[string]string{} // external addr -> internal addr
		permitted := map[perm]bool{}
		key := func(src, dst *net.UDPAddr) string {
			switch mb {
			case EndpointIndependent:
				return src.String()
			case EndpointAddrDependent:
				return src.String() + "|" + dst.IP.String()
			default:
				return src.String() + "|" + dst.String()
			}
		}
		fkey := func(remote *net.UDPAddr) string {
			switch fb {
			case EndpointIndependent:
				return ""
			case EndpointAddrDependent:
				return remote.IP.String()
			default:
				return remote.String()
			}
		}
		addr := func() *net.UDPAddr {
			return &net.UDPAddr{IP: net.IPv4(10, 0, 0, byte(1+rng.Intn(3))), Port: 5000 + rng.Intn(2)}
		}
		remote := func() *net.UDPAddr {
			return &net.UDPAddr{IP: net.IPv4(5, 6, 7, byte(1+rng.Intn(2))), Port: 80 + rng.Intn(2)}
		}
		for step := 0; step < 60; step++ {
			if rng.Intn(2) == 0 {
				src, dst := addr(), remote()
				out, err := n.translateOutbound(newChunkUDP(src, dst))
				if err != nil || out == nil {
					t.Fatalf("WITNESS outbound %s->%s failed: %v", src, dst, err)
				}
				ext := out.SourceAddr().String()
				k := key(src, dst)
				if prev, ok := extOf[k]; ok && prev != ext {
					t.Fatalf("WITNESS (mapping %v) same key %s got external %s then %s", mb, k, prev, ext)
				}
				if o, ok := owner[ext]; ok && o != src.String() {
					t.Fatalf("WITNESS external address %s shared by %s and %s", ext, o, src)
				}
				for k2, e2 := range extOf {
					if k2 != k && e2 == ext {
						t.Fatalf("WITNESS (mapping %v) different keys %s / %s share external address %s", mb, k, k2, ext)
					}
				}
				extOf[k], owner[ext] = ext, src.String()
				permitted[perm{ext, fkey(dst)}] = true
				if out.DestinationAddr().String() != dst.String() {
					t.Fatalf("WITNESS outbound destination changed")
				}
			} else if len(owner) > 0 {
				var exts []string
				for e := range owner {
					exts = append(exts, e)
				}
				ext := exts[rng.Intn(len(exts))]
				extAddr, _ := net.ResolveUDPAddr("udp", ext)
				from := remote()
				in, err := n.translateInbound(newChunkUDP(from, extAddr))
				want := permitted[perm{ext, fkey(from)}]
				if (in != nil) != want {
					t.Fatalf("WITNESS (filtering %v) inbound %s->%s admitted=%v, rule says %v (err %v)", fb, from, ext, in != nil, want, err)
				}
				if in != nil {
					if in.DestinationAddr().String() != owner[ext] {
						t.Fatalf("WITNESS inbound to %s delivered to %s, owner is %s", ext, in.DestinationAddr(), owner[ext])
					}
					if in.SourceAddr().String() != from.String() {
						t.Fatalf("WITNESS inbound source changed")
					}
				}
			}
		}
	}
	_ = fmt.Sprint()
}
