package test

// Witness search for C18 (Bridge): random histories of writes in both directions interleaved with DropNextNWrites,
// ReorderNextNWrites (also repeatedly), Reorder, Drop and Process, compared with a reference model: the bridge must
// deliver exactly the written messages minus the dropped ones, in the order implied by the requested reorderings,
// never duplicating or inventing a message.

import (
	"fmt"
	"math/rand"
	"strings"
	"sync"
	"testing"
	"time"
)

type wbDir struct {
	queue, stack    []string
	dropN, reorderN int
}

func (d *wbDir) push(m string) {
	switch {
	case d.dropN > 0:
		d.dropN--
	case d.reorderN > 0:
		d.reorderN--
		d.stack = append(d.stack, m)
		if d.reorderN == 0 {
			for i := len(d.stack) - 1; i >= 0; i-- {
				d.queue = append(d.queue, d.stack[i])
			}
			d.stack = nil
		}
	default:
		d.queue = append(d.queue, m)
	}
}

func TestWitnessBridge(t *testing.T) {
	for seed := int64(1); seed <= 150; seed++ {
		rng := rand.New(rand.NewSource(seed)) //nolint:gosec
		br := NewBridge()
		conns := []interface {
			Read([]byte) (int, error)
			Write([]byte) (int, error)
		}{br.GetConn0(), br.GetConn1()}
		var mu sync.Mutex
		got := [2][]string{}
		for side := 0; side < 2; side++ {
			go func(side int) {
				buf := make([]byte, 64)
				for {
					n, err := conns[side].Read(buf)
					if err != nil {
						return
					}
					mu.Lock()
					got[side] = append(got[side], string(buf[:n]))
					mu.Unlock()
				}
			}(side)
		}
		model := [2]*wbDir{{}, {}}
		want := [2][]string{} // want[side]: messages side should receive (sent by the other side)
		var hist []string
		next := 0
		for step := 0; step < 25; step++ {
			from := rng.Intn(2)
			switch op := rng.Intn(12); {
			case op < 7:
				m := fmt.Sprintf("m%03d", next)
				next++
				hist = append(hist, fmt.Sprintf("W%d(%s)", from, m))
				if _, err := conns[from].Write([]byte(m)); err != nil {
					t.Fatal(err)
				}
				model[from].push(m)
			case op < 8:
				n := 1 + rng.Intn(2)
				hist = append(hist, fmt.Sprintf("DropNext(%d,%d)", from, n))
				br.DropNextNWrites(from, n)
				model[from].dropN = n
			case op < 10:
				n := 1 + rng.Intn(3)
				if model[from].reorderN > 0 {
					continue // re-arming in the middle of a reordering is left out of the model
				}
				hist = append(hist, fmt.Sprintf("ReorderNext(%d,%d)", from, n))
				br.ReorderNextNWrites(from, n)
				model[from].reorderN = n
			case op < 11:
				hist = append(hist, fmt.Sprintf("Reorder(%d)", from))
				_ = br.Reorder(from)
				q := model[from].queue
				if len(q) >= 2 {
					for i, j := 0, len(q)-1; i < j; i, j = i+1, j-1 {
						q[i], q[j] = q[j], q[i]
					}
				}
			default:
				hist = append(hist, "Process")
				br.Process()
				for d := 0; d < 2; d++ {
					want[1-d] = append(want[1-d], model[d].queue...)
					model[d].queue = nil
				}
			}
		}
		br.Process()
		for d := 0; d < 2; d++ {
			want[1-d] = append(want[1-d], model[d].queue...)
		}
		time.Sleep(2 * time.Millisecond)
		mu.Lock()
		for side := 0; side < 2; side++ {
			if strings.Join(got[side], ",") != strings.Join(want[side], ",") {
				t.Fatalf("WITNESS seed=%d: endpoint %d received [%s], the history implies [%s]; history: %s",
					seed, side, strings.Join(got[side], ","), strings.Join(want[side], ","), strings.Join(hist, " "))
			}
		}
		mu.Unlock()
		_ = br.GetConn0().Close()
		_ = br.GetConn1().Close()
		br.Tick()
	}
}
