package udp

// Witness search for C11: several remote sockets send interleaved numbered datagrams to a listener; every accepted
// connection must see exactly the datagrams of its own remote, in order and byte-identical; one connection per remote;
// datagrams refused by the accept filter create nothing; after Close a new datagram from the remote creates a fresh
// connection.

import (
	"bytes"
	"fmt"
	"net"
	"sync"
	"testing"
	"time"
)

func TestWitnessListener(t *testing.T) {
	for _, batch := range []bool{false, true} {
		lc := ListenConfig{Backlog: 64, AcceptFilter: func(b []byte) bool { return len(b) > 0 && b[0] != 'X' }}
		if batch {
			lc.Batch = BatchIOConfig{Enable: true, ReadBatchSize: 8, WriteBatchSize: 4, WriteBatchInterval: time.Millisecond}
		}
		ln, err := lc.Listen("udp", &net.UDPAddr{IP: net.IPv4(127, 0, 0, 1), Port: 0})
		if err != nil {
			t.Skipf("no loopback UDP available: %v", err)
		}
		const remotes, per = 5, 40
		var mu sync.Mutex
		got := map[string][][]byte{} // remote address -> datagrams read from its connection
		nconns := map[string]int{}
		var wg sync.WaitGroup
		acceptDone := make(chan struct{})
		go func() {
			defer close(acceptDone)
			for {
				c, aerr := ln.Accept()
				if aerr != nil {
					return
				}
				ra := c.RemoteAddr().String()
				mu.Lock()
				nconns[ra]++
				mu.Unlock()
				wg.Add(1)
				go func(c net.Conn) {
					defer wg.Done()
					buf := make([]byte, 2048)
					for {
						_ = c.SetReadDeadline(time.Now().Add(400 * time.Millisecond))
						n, rerr := c.Read(buf)
						if rerr != nil {
							return
						}
						mu.Lock()
						got[ra] = append(got[ra], append([]byte(nil), buf[:n]...))
						mu.Unlock()
					}
				}(c)
			}
		}()
		mk := func(r, i int) []byte {
			b := make([]byte, 10+(i*53+r*7)%1200)
			copy(b, fmt.Sprintf("d%02d-%05d.", r, i))
			for k := 10; k < len(b); k++ {
				b[k] = byte(k + i*3 + r)
			}
			return b
		}
		socks := make([]*net.UDPConn, remotes)
		for r := range socks {
			socks[r], err = net.DialUDP("udp", nil, ln.Addr().(*net.UDPAddr)) //nolint:forcetypeassert
			if err != nil {
				t.Fatal(err)
			}
		}
		// a remote whose first datagram is refused by the filter creates nothing
		refused, _ := net.DialUDP("udp", nil, ln.Addr().(*net.UDPAddr)) //nolint:forcetypeassert
		_, _ = refused.Write([]byte("Xrefused"))
		for i := 0; i < per; i++ {
			for r := range socks {
				if _, err = socks[r].Write(mk(r, i)); err != nil {
					t.Fatal(err)
				}
			}
			if i%5 == 0 {
				time.Sleep(300 * time.Microsecond)
			}
		}
		time.Sleep(150 * time.Millisecond)
		mu.Lock()
		if n := nconns[refused.LocalAddr().String()]; n != 0 {
			t.Fatalf("WITNESS batch=%v: a datagram refused by the accept filter created %d connection(s)", batch, n)
		}
		for r := range socks {
			ra := socks[r].LocalAddr().String()
			if nconns[ra] != 1 {
				t.Fatalf("WITNESS batch=%v: remote %s has %d connections, expected exactly one", batch, ra, nconns[ra])
			}
			seq := got[ra]
			for i, d := range seq {
				if !bytes.Equal(d, mk(r, i)) {
					t.Fatalf("WITNESS batch=%v: connection of remote %d: %d-th datagram read is %q..., expected its own datagram #%d (foreign, reordered, duplicated or modified)", batch, r, i, d[:10], i)
				}
			}
			if len(seq) < per-2 { // loopback UDP itself may drop under pressure; allow a tiny tail loss only
				t.Fatalf("WITNESS batch=%v: connection of remote %d read %d of %d datagrams", batch, r, len(seq), per)
			}
		}
		mu.Unlock()
		_ = ln.Close()
		<-acceptDone
		wg.Wait()
		for r := range socks {
			_ = socks[r].Close()
		}
		_ = refused.Close()
	}
}
