package udp

// Bounded stand-in for the listener's read loops (read / readBatch, C11): they are not under contract (external
// ipv4.Message batches).  Both read modes are run with 4 remotes sending 60 datagrams each whose sizes go up and down
// (0..1400 bytes, empty datagrams included); everything a connection reads must be, in order, a prefix of what its remote sent, byte for byte.
// Labelled `bounded` in the evidence, never counted as proved.  Missing tail datagrams (UDP may drop) are tolerated.

import (
	"bytes"
	"fmt"
	"net"
	"sync"
	"testing"
	"time"
)

func TestBoundedReadLoops(t *testing.T) {
	cases := 0
	for _, batch := range []bool{false, true} {
		lc := ListenConfig{Backlog: 64}
		if batch {
			lc.Batch = BatchIOConfig{Enable: true, ReadBatchSize: 4, WriteBatchSize: 4, WriteBatchInterval: time.Millisecond}
		}
		ln, err := lc.Listen("udp", &net.UDPAddr{IP: net.IPv4(127, 0, 0, 1), Port: 0})
		if err != nil {
			t.Logf("BOUNDED-OK 0 cases (no loopback UDP: %v)", err)
			return
		}
		const remotes, per = 4, 60
		size := func(r, i int) int {
			s := []int{10, 1400, 3, 700, 1, 1200, 64, 900}[(i+r)%8]
			if s == 1 && i%7 == 0 {
				return 0 // an empty datagram is a datagram too
			}
			return s + i%7
		}
		mk := func(r, i int) []byte {
			b := make([]byte, size(r, i))
			for k := range b {
				b[k] = byte(k*7 + i + r*31)
			}
			copy(b, fmt.Sprintf("%d", i%10))
			return b
		}
		var mu sync.Mutex
		got := map[string][][]byte{}
		go func() {
			for {
				c, aerr := ln.Accept()
				if aerr != nil {
					return
				}
				go func(c net.Conn) {
					buf := make([]byte, 2048)
					ra := c.RemoteAddr().String()
					for {
						_ = c.SetReadDeadline(time.Now().Add(time.Second))
						n, rerr := c.Read(buf)
						if rerr != nil {
							return
						}
						mu.Lock()
						got[ra] = append(got[ra], append([]byte(nil), buf[:n]...))
						mu.Unlock()
					}
				}(c)
			}
		}()
		socks := make([]*net.UDPConn, remotes)
		for r := range socks {
			socks[r], err = net.DialUDP("udp", nil, ln.Addr().(*net.UDPAddr)) //nolint:forcetypeassert
			if err != nil {
				t.Fatal(err)
			}
		}
		for i := 0; i < per; i++ {
			for r := range socks {
				_, _ = socks[r].Write(mk(r, i))
			}
			time.Sleep(200 * time.Microsecond)
		}
		deadline := time.Now().Add(2 * time.Second)
		for time.Now().Before(deadline) {
			mu.Lock()
			n := 0
			for _, v := range got {
				n += len(v)
			}
			mu.Unlock()
			if n >= remotes*per {
				break
			}
			time.Sleep(5 * time.Millisecond)
		}
		mu.Lock()
		for r := range socks {
			seq := got[socks[r].LocalAddr().String()]
			// UDP may drop: match the reads against the sent sequence as a subsequence in order
			j := 0
			for _, d := range seq {
				for j < per && !bytes.Equal(d, mk(r, j)) {
					j++
				}
				if j == per {
					t.Fatalf("BOUNDED-FAIL batch=%v remote %d: a datagram of %d bytes was read that is no datagram of this remote at or after its position (truncated, modified, foreign or reordered)", batch, r, len(d))
				}
				j++
				cases++
			}
		}
		// loss over loopback is rare and blind to content: a whole class of datagrams (the empty ones) that never arrives
		// while nearly everything else does is not loss
		sentEmpty, gotEmpty, gotAll := 0, 0, 0
		for r := range socks {
			for i := 0; i < per; i++ {
				if size(r, i) == 0 {
					sentEmpty++
				}
			}
			for _, d := range got[socks[r].LocalAddr().String()] {
				gotAll++
				if len(d) == 0 {
					gotEmpty++
				}
			}
		}
		if sentEmpty >= 4 && gotEmpty == 0 && gotAll*10 >= remotes*per*9 {
			t.Fatalf("BOUNDED-FAIL batch=%v: none of the %d empty datagrams was delivered although %d of %d datagrams arrived", batch, sentEmpty, gotAll, remotes*per)
		}
		mu.Unlock()
		_ = ln.Close()
		for r := range socks {
			_ = socks[r].Close()
		}
	}
	t.Logf("BOUNDED-OK %d cases", cases)
}
