package packetio

// Witness search for failed packetio obligations (used only to produce a failing input for a replay file;
// it never decides a property).  Runs histories of the real Buffer against the reference model stated by
// properties C06/C07 and reports the first disagreement.  Injected with `go test -overlay`.

import (
	"bytes"
	"errors"
	"fmt"
	"io"
	"math/rand"
	"os"
	"strconv"
	"testing"
	"time"
)

type wModel struct {
	pkts       [][]byte
	limitCount int
	limitSize  int
	closed     bool
}

func (m *wModel) size() int {
	s := 0
	for _, p := range m.pkts {
		s += len(p) + 2
	}
	return s
}

// the acceptance rule of C07 (no size limit: the 4 MiB cap of the ring, one byte kept free)
func (m *wModel) accepts(n int) bool {
	if n >= 65536 || m.closed {
		return false
	}
	if m.limitCount > 0 && len(m.pkts) >= m.limitCount {
		return false
	}
	if m.limitSize > 0 && m.size()+2+n > m.limitSize {
		return false
	}
	if m.limitSize <= 0 && m.size()+2+n > maxSize-1 {
		return false
	}
	return true
}

type wStep struct {
	op  string
	arg int
}

func wSeed() int64 {
	if s, err := strconv.ParseInt(os.Getenv("VERIF_SEED"), 10, 64); err == nil {
		return s
	}
	return 1
}

func wRun(steps []wStep, rng *rand.Rand) error {
	b := NewBuffer()
	m := &wModel{}
	fill := byte(1)
	for i, st := range steps {
		switch st.op {
		case "write":
			p := make([]byte, st.arg)
			for k := range p {
				p[k] = fill
				fill = fill*31 + 7
			}
			want := m.accepts(len(p))
			n, err := b.Write(p)
			if (err == nil) != want {
				return fmt.Errorf("step %d Write(len %d): err=%v, rule says accept=%v (size %d count %d limitSize %d limitCount %d closed %v cap %d)", i, len(p), err, want, m.size(), len(m.pkts), m.limitSize, m.limitCount, m.closed, len(b.data))
			}
			if err == nil {
				if n != len(p) {
					return fmt.Errorf("step %d Write returned n=%d for len %d", i, n, len(p))
				}
				m.pkts = append(m.pkts, append([]byte(nil), p...))
				for k := range p { // the writer may overwrite its slice
					p[k] = 0xEE
				}
			} else {
				if n != 0 {
					return fmt.Errorf("step %d refused Write returned n=%d", i, n)
				}
				switch {
				case len(p) >= 65536:
					if !errors.Is(err, errPacketTooBig) {
						return fmt.Errorf("step %d oversize Write: %v", i, err)
					}
				case m.closed:
					if !errors.Is(err, io.ErrClosedPipe) {
						return fmt.Errorf("step %d Write after Close: %v", i, err)
					}
				default:
					if !errors.Is(err, ErrFull) {
						return fmt.Errorf("step %d refused Write: %v, want ErrFull", i, err)
					}
				}
			}
		case "read":
			if len(m.pkts) == 0 && !m.closed {
				continue // would block
			}
			q := make([]byte, st.arg)
			for k := range q {
				q[k] = 0xAA
			}
			n, err := b.Read(q)
			if len(m.pkts) == 0 {
				if !errors.Is(err, io.EOF) || n != 0 {
					return fmt.Errorf("step %d Read on closed empty buffer: n=%d err=%v", i, n, err)
				}
				continue
			}
			want := m.pkts[0]
			m.pkts = m.pkts[1:]
			k := len(want)
			if k > len(q) {
				k = len(q)
			}
			if n != k || !bytes.Equal(q[:k], want[:k]) {
				return fmt.Errorf("step %d Read(len %d): n=%d, want %d bytes of packet (len %d); equal=%v", i, len(q), n, k, len(want), n == k)
			}
			for _, c := range q[k:] {
				if c != 0xAA {
					return fmt.Errorf("step %d Read wrote beyond the returned length", i)
				}
			}
			if k < len(want) {
				if !errors.Is(err, io.ErrShortBuffer) {
					return fmt.Errorf("step %d short Read: err=%v", i, err)
				}
			} else if err != nil {
				return fmt.Errorf("step %d Read: err=%v", i, err)
			}
		case "limitsize":
			b.SetLimitSize(st.arg)
			m.limitSize = st.arg
		case "limitcount":
			b.SetLimitCount(st.arg)
			m.limitCount = st.arg
		case "close":
			_ = b.Close()
			m.closed = true
		}
		if c := b.Count(); c != len(m.pkts) {
			return fmt.Errorf("step %d (%s %d): Count=%d, want %d", i, st.op, st.arg, c, len(m.pkts))
		}
		if s := b.Size(); s != m.size() {
			return fmt.Errorf("step %d (%s %d): Size=%d, want %d", i, st.op, st.arg, s, m.size())
		}
	}
	return nil
}

func wRandomHistory(rng *rand.Rand, big bool) []wStep {
	var steps []wStep
	n := 20 + rng.Intn(200)
	sizes := []int{0, 1, 2, 3, 100, 1000, 2040, 2043, 2044, 2045, 4000, 65535, 65536}
	for i := 0; i < n; i++ {
		switch r := rng.Intn(100); {
		case r < 50:
			sz := sizes[rng.Intn(len(sizes))]
			if rng.Intn(3) == 0 {
				sz = rng.Intn(70000)
			}
			if big {
				sz = 50000 + rng.Intn(15000)
			}
			steps = append(steps, wStep{"write", sz})
		case r < 85:
			steps = append(steps, wStep{"read", []int{0, 1, 5, 1000, 70000}[rng.Intn(5)]})
		case r < 90:
			v := []int{0, 1, 64, 2048, 2049, 5000, 100000, 6 << 20, 9 << 20}[rng.Intn(9)]
			steps = append(steps, wStep{"limitsize", v})
		case r < 95:
			steps = append(steps, wStep{"limitcount", []int{0, 1, 2, 7}[rng.Intn(4)]})
		case r < 96:
			steps = append(steps, wStep{"close", 0})
		default:
			// burst of writes
			for k := 0; k < 150; k++ {
				steps = append(steps, wStep{"write", 60000})
			}
		}
	}
	return steps
}

func TestWitnessBuffer(t *testing.T) {
	budget := 20 * time.Second
	if s, err := strconv.Atoi(os.Getenv("GOVC_WITNESS_SECONDS")); err == nil {
		budget = time.Duration(s) * time.Second
	}
	deadline := time.Now().Add(budget)
	rng := rand.New(rand.NewSource(wSeed()))
	// directed histories first: limits raised, filled, drained, then lowered / removed
	directed := [][]wStep{}
	for _, lim := range []int{6 << 20, 9 << 20} {
		var h []wStep
		h = append(h, wStep{"limitsize", lim})
		for k := 0; k < 160; k++ {
			h = append(h, wStep{"write", 60000})
		}
		for k := 0; k < 160; k++ {
			h = append(h, wStep{"read", 70000})
		}
		h = append(h, wStep{"limitsize", 0})
		for k := 0; k < 160; k++ {
			h = append(h, wStep{"write", 60000})
		}
		directed = append(directed, h)
	}
	runs := 0
	for _, h := range directed {
		runs++
		if err := wRun(h, rng); err != nil {
			t.Fatalf("WITNESS directed history %d: %v", runs, err)
		}
	}
	for time.Now().Before(deadline) {
		h := wRandomHistory(rng, rng.Intn(4) == 0)
		runs++
		if err := wRun(h, rng); err != nil {
			t.Fatalf("WITNESS random history %d (seed %d): %v\nhistory: %v", runs, wSeed(), err, h)
		}
	}
	t.Logf("witness search: %d histories, no disagreement", runs)
}
