package netctx

// Witness search for C17: a writer sends numbered bytes through a pipe with contexts cancelled at random instants, a
// reader reads with contexts cancelled at random instants.  The bytes received must equal the bytes reported written,
// in order; an operation reporting an error with n == 0 has transferred nothing; after a cancelled operation the next
// operation with a live context must not be timed out by a leftover deadline.

import (
	"context"
	"math/rand"
	"sync"
	"testing"
	"time"
)

func TestWitnessCtxIO(t *testing.T) {
	for seed := int64(1); seed <= 12; seed++ {
		a, b := Pipe()
		var wg sync.WaitGroup
		var written, received []byte
		const total = 600
		wg.Add(2)
		go func() { // writer
			defer wg.Done()
			rng := rand.New(rand.NewSource(seed)) //nolint:gosec
			next := byte(0)
			for len(written) < total {
				k := 1 + rng.Intn(7)
				buf := make([]byte, k)
				for i := range buf {
					buf[i] = next + byte(i)
				}
				ctx, cancel := context.WithCancel(context.Background())
				if rng.Intn(3) == 0 {
					go func(d time.Duration) { time.Sleep(d); cancel() }(time.Duration(rng.Intn(300)) * time.Microsecond)
				}
				n, err := a.WriteContext(ctx, buf)
				cancel()
				written = append(written, buf[:n]...)
				next += byte(n)
				if err != nil && n == 0 {
					// nothing transferred: the very next write with a live context must not be refused by a leftover deadline
					ctx2, c2 := context.WithTimeout(context.Background(), 2*time.Second)
					n2, err2 := a.WriteContext(ctx2, []byte{next})
					c2()
					if err2 != nil {
						t.Errorf("WITNESS seed=%d: write with a live context failed right after a cancelled write: %v (leftover deadline?)", seed, err2)
						return
					}
					written = append(written, next)
					next += byte(n2)
				}
			}
			_ = a.Close()
		}()
		go func() { // reader
			defer wg.Done()
			rng := rand.New(rand.NewSource(seed + 1000)) //nolint:gosec
			buf := make([]byte, 16)
			for {
				ctx, cancel := context.WithCancel(context.Background())
				if rng.Intn(3) == 0 {
					go func(d time.Duration) { time.Sleep(d); cancel() }(time.Duration(rng.Intn(300)) * time.Microsecond)
				}
				n, err := b.ReadContext(ctx, buf[:1+rng.Intn(15)])
				cancelled := ctx.Err() != nil
				cancel()
				received = append(received, buf[:n]...)
				if err != nil && !cancelled {
					return // closed by the writer
				}
			}
		}()
		done := make(chan struct{})
		go func() { wg.Wait(); close(done) }()
		select {
		case <-done:
		case <-time.After(10 * time.Second):
			t.Fatalf("WITNESS seed=%d: transfer wedged (an operation with a live context never completed)", seed)
		}
		_ = b.Close()
		if len(received) > len(written) {
			t.Fatalf("WITNESS seed=%d: %d bytes received but only %d reported written", seed, len(received), len(written))
		}
		for i := range received {
			if received[i] != written[i] {
				t.Fatalf("WITNESS seed=%d: byte %d received is %d, written was %d (lost, duplicated or reordered data)", seed, i, received[i], written[i])
			}
		}
		if len(received) != len(written) {
			t.Fatalf("WITNESS seed=%d: %d bytes reported written, %d received", seed, len(written), len(received))
		}
	}
}
