package xor

// Bounded stand-in for the parts of XorBytes outside govc's reach (assembly behind crypto/subtle.XORBytes;
// the unsafe word loops of fastXORBytes in the gccgo / pre-go1.20 variant).  Labelled `bounded` in the evidence,
// never counted as a discharged obligation.  Bound: len(a), len(b) in [0,40], every start offset 0..7 of the
// three slices, dst == a exactly, dst == b exactly, guard bytes around dst, 3 random contents each.

import (
	"math/rand"
	"testing"
)

func TestBoundedXorBytes(t *testing.T) {
	rng := rand.New(rand.NewSource(1))
	cases := 0
	for la := 0; la <= 40; la++ {
		for lb := 0; lb <= 40; lb++ {
			n := la
			if lb < n {
				n = lb
			}
			for off := 0; off < 8; off++ {
				for mode := 0; mode < 3; mode++ { // 0 separate dst, 1 dst==a, 2 dst==b
					for rep := 0; rep < 3; rep++ {
						abuf := make([]byte, 64+off)
						bbuf := make([]byte, 64+(off*3)%8)
						dbuf := make([]byte, 80+(off*5)%8)
						rng.Read(abuf)
						rng.Read(bbuf)
						rng.Read(dbuf)
						a := abuf[off : off+la]
						b := bbuf[(off*3)%8 : (off*3)%8+lb]
						var dst []byte
						dlen := n + rep
						switch mode {
						case 0:
							dst = dbuf[8+(off*5)%8 : 8+(off*5)%8+dlen]
						case 1:
							dst = a[:n]
						case 2:
							dst = b[:n]
						}
						a0 := append([]byte(nil), abuf...)
						b0 := append([]byte(nil), bbuf...)
						d0 := append([]byte(nil), dbuf...)
						oa := append([]byte(nil), a...)
						ob := append([]byte(nil), b...)
						got := XorBytes(dst, a, b)
						cases++
						if got != n {
							t.Fatalf("BOUNDED-FAIL la=%d lb=%d off=%d mode=%d: n=%d want %d", la, lb, off, mode, got, n)
						}
						for i := 0; i < n; i++ {
							if dst[i] != oa[i]^ob[i] {
								t.Fatalf("BOUNDED-FAIL la=%d lb=%d off=%d mode=%d: dst[%d]=%#x want %#x", la, lb, off, mode, i, dst[i], oa[i]^ob[i])
							}
						}
						// everything else unchanged
						chk := func(name string, cur, old []byte, lo, hi int, skip bool) {
							for i := range cur {
								if skip && i >= lo && i < hi {
									continue
								}
								if cur[i] != old[i] {
									t.Fatalf("BOUNDED-FAIL la=%d lb=%d off=%d mode=%d: %s[%d] changed", la, lb, off, mode, name, i)
								}
							}
						}
						chk("abuf", abuf, a0, off, off+n, mode == 1)
						chk("bbuf", bbuf, b0, (off*3)%8, (off*3)%8+n, mode == 2)
						chk("dbuf", dbuf, d0, 8+(off*5)%8, 8+(off*5)%8+n, mode == 0)
					}
				}
			}
		}
	}
	t.Logf("BOUNDED-OK cases=%d", cases)
}
