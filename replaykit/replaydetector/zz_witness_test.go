package replaydetector

// Witness search for failed replaydetector obligations: histories of Check/accept on the real detectors
// against the sliding-window rule of C04/C05.  Used only to attach a failing input to a report.

import (
	"fmt"
	"math/rand"
	"os"
	"strconv"
	"testing"
	"time"
)

func wSeed() int64 {
	if s, err := strconv.ParseInt(os.Getenv("VERIF_SEED"), 10, 64); err == nil {
		return s
	}
	return 1
}

func wBudget() time.Duration {
	if s, err := strconv.Atoi(os.Getenv("GOVC_WITNESS_SECONDS")); err == nil {
		return time.Duration(s) * time.Second
	}
	return 15 * time.Second
}

// plain detector reference
type plainRef struct {
	ws, max uint64
	latest  uint64
	acc     map[uint64]bool
}

func (r *plainRef) fresh(seq uint64) bool {
	if seq > r.max || r.acc[seq] {
		return false
	}
	return seq > r.latest || r.latest-seq < r.ws
}

func runPlain(ws uint, max uint64, seqs []uint64, acceptMask []bool) error {
	d := New(ws, max)
	ref := &plainRef{ws: uint64(ws), max: max, acc: map[uint64]bool{}}
	for i, s := range seqs {
		accept, ok := d.Check(s)
		want := ref.fresh(s)
		if ok && (ref.acc[s] || s > max) {
			return fmt.Errorf("New(%d,%d) history %v: step %d Check(%d) accepted a replayed / too large number (C04)", ws, max, seqs[:i+1], i, s)
		}
		if max >= uint64(ws) && ok != want {
			return fmt.Errorf("New(%d,%d) history %v accept=%v: step %d Check(%d)=%v, sliding-window rule says %v (latest %d)", ws, max, seqs[:i+1], acceptMask[:i+1], i, s, ok, want, ref.latest)
		}
		if ok && acceptMask[i] {
			newest := len(ref.acc) == 0 || s > ref.latest
			got := accept()
			if got != newest {
				return fmt.Errorf("New(%d,%d) history %v: step %d accept(%d) returned %v, want %v", ws, max, seqs[:i+1], i, s, got, newest)
			}
			ref.acc[s] = true
			if s > ref.latest {
				ref.latest = s
			}
		}
	}
	return nil
}

// wrapping detector reference (distances modulo M = max+1)
type wrapRef struct {
	ws, max uint64
	init    bool
	latest  uint64
	acc     map[uint64]bool
}

func (r *wrapRef) behind(l, s uint64) uint64 {
	if l >= s {
		return l - s
	}
	return l + (r.max + 1) - s
}

func runWrap(ws uint, max uint64, seqs []uint64, acceptMask []bool) error {
	d := WithWrap(ws, max)
	r := &wrapRef{ws: uint64(ws), max: max, acc: map[uint64]bool{}}
	half := max / 2
	m := max + 1
	for i, s := range seqs {
		accept, ok := d.Check(s)
		if ok && (s > max || r.acc[s]) {
			return fmt.Errorf("WithWrap(%d,%d) history %v accept=%v: step %d Check(%d) accepted a replayed / too large number (C04)", ws, max, seqs[:i+1], acceptMask[:i+1], i, s)
		}
		if s <= max {
			if !r.init {
				if !ok {
					return fmt.Errorf("WithWrap(%d,%d) history %v accept=%v: step %d first-use Check(%d) refused", ws, max, seqs[:i+1], acceptMask[:i+1], i, s)
				}
			} else {
				b := r.behind(r.latest, s)
				older := b <= half
				newer := b > m-half
				if older || newer {
					want := newer || (b < r.ws && !r.acc[s])
					if ok != want {
						return fmt.Errorf("WithWrap(%d,%d) history %v accept=%v: step %d Check(%d)=%v, rule says %v (latest %d, behind %d)", ws, max, seqs[:i+1], acceptMask[:i+1], i, s, ok, want, r.latest, b)
					}
				}
			}
		}
		if ok && acceptMask[i] {
			wasInit := r.init
			newest := !wasInit || r.behind(r.latest, s) > half
			got := accept()
			_ = got
			if newest {
				r.latest = s
			}
			r.init = true
			r.acc[s] = true
			// prune: numbers more than half the space behind the newest accepted one are forgotten
			for k := range r.acc {
				if r.behind(r.latest, k) > half {
					delete(r.acc, k)
				}
			}
		}
	}
	return nil
}

func TestWitnessDetectors(t *testing.T) {
	rng := rand.New(rand.NewSource(wSeed()))
	deadline := time.Now().Add(wBudget())
	windows := []uint{0, 1, 2, 8, 31, 32, 33, 48, 50, 63, 64, 65, 100, 127, 128, 129, 200}
	maxes := []uint64{0, 1, 2, 3, 5, 7, 100, 255, 65535, 1<<48 - 1, 1<<62 - 1, 1<<64 - 1}
	runs := 0
	for time.Now().Before(deadline) {
		ws := windows[rng.Intn(len(windows))]
		max := maxes[rng.Intn(len(maxes))]
		n := 3 + rng.Intn(40)
		base := uint64(0)
		switch rng.Intn(4) {
		case 1:
			if max > 300 {
				base = max - uint64(rng.Intn(300))
			}
		case 2:
			if max == 1<<64-1 {
				base = rng.Uint64()
			} else if max > 0 {
				base = uint64(rng.Int63()) % (max + 1)
			}
		}
		seqs := make([]uint64, n)
		mask := make([]bool, n)
		cur := base
		for i := range seqs {
			switch rng.Intn(6) {
			case 0:
				cur += uint64(rng.Intn(3))
			case 1:
				cur += uint64(rng.Intn(int(ws) + 70))
			case 2:
				cur -= uint64(rng.Intn(int(ws) + 3))
			case 3:
				if i > 0 {
					cur = seqs[rng.Intn(i)]
				}
			case 4:
				cur = uint64(rng.Intn(4))
			default:
				cur++
			}
			seqs[i] = cur
			mask[i] = rng.Intn(8) != 0
		}
		runs++
		if err := runPlain(ws, max, seqs, mask); err != nil {
			t.Fatalf("WITNESS plain (seed %d): %v", wSeed(), err)
		}
		if max >= 4 && max < 1<<62 && uint64(ws)*2 <= max+1 {
			ws2 := append([]uint64(nil), seqs...)
			for i := range ws2 {
				ws2[i] %= (max + 1) + uint64(rng.Intn(2))
			}
			if err := runWrap(ws, max, ws2, mask); err != nil {
				t.Fatalf("WITNESS wrap (seed %d): %v", wSeed(), err)
			}
		}
	}
	t.Logf("witness search: %d histories, no disagreement", runs)
}

// Known finding (C05, degenerate sequence spaces): with maxSeq < 4 the first number checked is refused.
func TestWitnessWrapTiny(t *testing.T) {
	for _, max := range []uint64{0, 1, 2, 3} {
		for ws := uint(0); uint64(ws)*2 <= max+1; ws++ {
			for s := uint64(0); s <= max; s++ {
				if err := runWrap(ws, max, []uint64{s}, []bool{true}); err != nil {
					t.Fatalf("WITNESS wrap tiny: %v", err)
				}
			}
		}
	}
}
