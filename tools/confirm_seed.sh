#!/bin/bash
# usage: confirm_seed.sh <src dir with patch.diff, demo_test.go> <pkg dir e.g. packetio> <seed id> <property>
# Confirms in a scratch worktree: compiles, existing tests of the package pass with the patch, demo fails with it and passes without.
set -u
export GOFLAGS=-mod=mod GOPROXY=off GOSUMDB=off GOTOOLCHAIN=local
src=$1; pkg=$2; id=$3; prop=$4; race=${5:-}
wt=$(mktemp -d /tmp/confirm.XXXX)
git -C /repo worktree add -q --detach $wt HEAD || exit 2
cleanup() { git -C /repo worktree remove --force $wt; }
trap cleanup EXIT
cd $wt
git apply $src/patch.diff || { echo "patch does not apply"; exit 2; }
go build ./... || { echo "BUILD FAILS"; exit 2; }
go vet ./$pkg/ >/dev/null 2>&1
ex=PASS; go test -count=1 -skip "TestTokenBucketFilter/8Mbit-s" ./$pkg/ >/tmp/confirm_existing.log 2>&1 || ex=FAIL
cp $src/demo_test.go $pkg/zz_demo_test.go
dw=PASS; go test $race -count=1 -run "$(grep -o 'func Test[A-Za-z0-9_]*' $pkg/zz_demo_test.go | head -1 | sed 's/func //')" ./$pkg/ >/tmp/confirm_demo_with.log 2>&1 || dw=FAIL
git checkout -q -- . 
dwo=PASS; go test $race -count=1 -run "$(grep -o 'func Test[A-Za-z0-9_]*' $pkg/zz_demo_test.go | head -1 | sed 's/func //')" ./$pkg/ >/tmp/confirm_demo_without.log 2>&1 || dwo=FAIL
echo "$id: existing_tests_with_patch=$ex demo_with_patch=$dw demo_without_patch=$dwo"
if [ "$ex" = PASS ] && [ "$dw" = FAIL ] && [ "$dwo" = PASS ]; then
  mkdir -p /verif/seeded/$id
  cp $src/patch.diff /verif/seeded/$id/patch.diff
  cp $src/demo_test.go /verif/seeded/$id/demo_test.go
  [ -f $src/notes.md ] && cp $src/notes.md /verif/seeded/$id/notes.md
  echo CONFIRMED
  exit 0
fi
echo NOT-CONFIRMED; exit 1
