#!/usr/bin/env python3
"""Engine self-test: every good function of /verif/selftest/mod must verify, every bad one must fail (and, where
expect.json names an obligation, fail on that obligation).  Run after every engine change."""
import json, os, re, subprocess, sys
from concurrent.futures import ThreadPoolExecutor
ROOT = os.path.dirname(os.path.dirname(os.path.abspath(__file__)))
GOVC = os.environ.get("GOVC", os.path.join(ROOT, "bin", "govc"))
MOD = os.path.join(ROOT, "selftest", "mod")
exp = json.load(open(os.path.join(ROOT, "selftest", "expect.json")))
def run(item):
    key, want = item
    p = subprocess.run([GOVC, "check", "--repo", MOD, "--no-evidence", "--func", key], capture_output=True, text=True)
    out = p.stdout + p.stderr
    failed = re.findall(r"^  FAILED (\S+)", out, re.M)
    engine = "ENGINE" in out or "panic" in out or "goroutine " in out
    if want == "ENGINE":
        good = p.returncode != 0 and "ENGINE-ERROR" in out and "OK property" not in out
    elif want == "ok":
        good = p.returncode == 0 and not failed
    else:
        good = p.returncode != 0 and not engine and any(want in f for f in failed)
    return key, want, good, failed, out
items = sorted(exp.items())
if len(sys.argv) > 1:
    items = [i for i in items if any(a in i[0] for a in sys.argv[1:])]
bad = 0
with ThreadPoolExecutor(8) as ex:
    for key, want, good, failed, out in ex.map(run, items):
        print(("pass " if good else "FAIL ") + key, "expect=" + want, "failed=" + ",".join(failed))
        if not good:
            bad += 1
            if os.environ.get("SELFTEST_V"):
                print(out[-3000:])
print("selftest: %d cases, %d wrong" % (len(items), bad))
sys.exit(1 if bad else 0)
