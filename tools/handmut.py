#!/usr/bin/env python3
"""handmut.py <file> <property> : apply hand-written mutants (a JSON list of [name, old, new]) from stdin-less spec file"""
import subprocess,re,sys,json
f,prop,spec=sys.argv[1],sys.argv[2],sys.argv[3]
src=open(f).read()
muts=eval(open(spec).read())
try:
    for name,a,b in muts:
        if a not in src:
            print(name,'-> PATTERN NOT FOUND'); continue
        open(f,'w').write(src.replace(a,b,1))
        r=subprocess.run(['/verif/bin/govc','check','--property',prop,'--no-evidence'],capture_output=True,text=True)
        failed=re.findall(r'^\s+FAILED (\S+)', r.stdout, re.M)
        print(name, '-> exit', r.returncode, [x.split('/')[-1] for x in failed][:6], [l[:160] for l in r.stdout.split('\n') if 'ENGINE' in l][:1])
finally:
    open(f,'w').write(src)
