#!/usr/bin/env python3
"""Apply every seeded change in /verif/seeded to /repo in turn, run the quick check of its property, revert.
Writes the outcome into seeded/<id>/meta.json (fields detected / failed_obligations / ran).  Usage: run_seeds.py [ids...]"""
import json, os, subprocess, sys, re, time
root = '/verif/seeded'
ids = sys.argv[1:] or sorted(os.listdir(root))
summary = []
for sid in ids:
    d = os.path.join(root, sid)
    if not os.path.isfile(os.path.join(d, 'patch.diff')): continue
    meta_p = os.path.join(d, 'meta.json')
    meta = json.load(open(meta_p)) if os.path.exists(meta_p) else {}
    prop = meta.get('property') or sid.split('_')[0].upper()
    assert subprocess.run(['git', '-C', '/repo', 'status', '--porcelain', '--untracked-files=no'], capture_output=True, text=True).stdout.strip() == '', 'repo dirty'
    r = subprocess.run(['git', '-C', '/repo', 'apply', os.path.join(d, 'patch.diff')], capture_output=True, text=True)
    if r.returncode != 0:
        print(sid, 'PATCH DOES NOT APPLY', r.stderr); continue
    t0 = time.time()
    try:
        out = subprocess.run(['/verif/bin/govc', 'check', '--property', prop, '--tier', 'quick'], capture_output=True, text=True, timeout=900)
        code, text = out.returncode, out.stdout + out.stderr
    except subprocess.TimeoutExpired:
        code, text = -1, 'timeout'
    finally:
        subprocess.run(['git', '-C', '/repo', 'checkout', '--', '.'])
        subprocess.run(['git', '-C', '/verif', 'checkout', '--', 'evidence'])
    failed = re.findall(r'^\s+FAILED (\S+)', text, re.M)
    meta.update({'property': prop, 'detected': code == 1, 'check_exit': code, 'failed_obligations': failed,
                 'check_seconds': round(time.time() - t0, 1),
                 'ran': f'git -C /repo apply seeded/{sid}/patch.diff; /verif/bin/govc check --property {prop} --tier quick; git -C /repo checkout -- .'})
    json.dump(meta, open(meta_p, 'w'), indent=1)
    summary.append((sid, prop, code, failed))
    print(sid, prop, 'exit', code, 'DETECTED' if code == 1 else 'MISSED', failed[:4])
