#!/usr/bin/env python3
"""Debug helper: ground instantiation of pattern-annotated quantified hypotheses of a dumped govc query."""
import re, subprocess, sys, time

def parse(s, i=0):
    # returns (tree, next index); tree = str atom or list
    while s[i].isspace(): i += 1
    if s[i] == '(':
        i += 1; out = []
        while True:
            while s[i].isspace(): i += 1
            if s[i] == ')': return out, i+1
            t, i = parse(s, i); out.append(t)
    j = i
    while j < len(s) and not s[j].isspace() and s[j] not in '()': j += 1
    return s[i:j], j

def show(t):
    return t if isinstance(t, str) else '(' + ' '.join(show(x) for x in t) + ')'

def subst(t, env):
    if isinstance(t, str): return env.get(t, t)
    return [subst(x, env) for x in t]

def subterms(t, acc):
    if isinstance(t, list):
        acc.add(show(t))
        for x in t: subterms(x, acc)

def match(pat, term, vars_, env):
    if isinstance(pat, str):
        if pat in vars_:
            if pat in env: return env[pat] == term
            env[pat] = term; return True
        return pat == term
    if not isinstance(term, list) or len(term) != len(pat): return False
    return all(match(p, t, vars_, env) for p, t in zip(pat, term))

def skolemize_goal(g, n=[0]):
    # g is tree of (not X); push: find top-level foralls in X under and/=>: simple approach: replace positive forall occurrences reachable through and / => rhs
    def pos(t):
        if isinstance(t, list) and t and t[0] == 'forall':
            binds, body = t[1], t[2]
            env = {}
            for b in binds:
                n[0] += 1; sk = 'sk!%d' % n[0]; decls.append('(declare-const %s %s)' % (sk, show(b[1]))); env[b[0]] = sk
            if isinstance(body, list) and body[0] == '!': body = body[1]
            return pos(subst(body, env))
        if isinstance(t, list) and t and t[0] == 'and': return ['and'] + [pos(x) for x in t[1:]]
        if isinstance(t, list) and t and t[0] == '=>' and len(t) == 3: return ['=>', t[1], pos(t[2])]
        return t
    return ['not', pos(g[1])]

decls = []
def main():
    f = sys.argv[1]; rounds = int(sys.argv[2]) if len(sys.argv) > 2 else 2
    text = open(f).read()
    items = []
    i = 0
    while True:
        while i < len(text) and (text[i].isspace()): i += 1
        if i >= len(text): break
        if text[i] == ';':
            i = text.index('\n', i); continue
        t, i = parse(text, i); items.append(t)
    head = [t for t in items if t[0] in ('set-logic', 'declare-sort', 'declare-const', 'declare-fun', 'set-option')]
    asserts = [t[1] for t in items if t[0] == 'assert']
    goal = asserts[-1]; hyps = asserts[:-1]
    goal = skolemize_goal(goal)
    quants = []; ground = []
    def split(h):
        if isinstance(h, list) and h and h[0] == 'and':
            for x in h[1:]: split(x)
        elif isinstance(h, list) and h and h[0] == 'forall': quants.append(h)
        else: ground.append(h)
    for h in hyps: split(h)
    ground.append(goal)
    print('quantified hyps:', len(quants), 'ground:', len(ground))
    done = set()
    for r in range(rounds):
        terms = set()
        for g in ground: subterms(g, terms)
        # definitions X = store(B,k,v), also under implications
        defs = {}
        def finddefs(t):
            if isinstance(t, list) and t:
                if t[0] == '=' and len(t) == 3 and isinstance(t[2], list) and t[2] and t[2][0] == 'store':
                    defs.setdefault(show(t[1]), []).append(t[2])
                if t[0] in ('=>', 'and', 'or', 'not', 'ite'):
                    for x in t[1:]: finddefs(x)
        for g in ground: finddefs(g)
        changed = True
        while changed:
            changed = False
            for x in list(terms):
                t = parse(x)[0]
                if isinstance(t, list) and t[0] == 'select':
                    arrs = []
                    if isinstance(t[1], list) and t[1][0] == 'store': arrs.append(t[1])
                    arrs += defs.get(show(t[1]), [])
                    for st in arrs:
                        nt = show(['select', st[1], t[2]])
                        if nt not in terms:
                            terms.add(nt); subterms(parse(nt)[0], terms); changed = True
        tt = [parse(x)[0] for x in terms]
        new = 0
        for qi, q in enumerate(quants):
            binds, body = q[1], q[2]
            vars_ = [b[0] for b in binds]
            pats = []
            if isinstance(body, list) and body[0] == '!':
                k = 2
                while k < len(body):
                    if body[k] == ':pattern': pats.append(body[k+1]); k += 2
                    else: k += 1
                body = body[1]
            for pat in pats:
                if len(pat) != 1: continue
                for t in tt:
                    env = {}
                    if match(pat[0], t, vars_, env) and len(env) == len(vars_):
                        key = (qi, tuple(show(env[v]) for v in vars_))
                        if key in done: continue
                        done.add(key); ground.append(subst(body, env)); new += 1
        print('round', r, 'new instances', new)
        if not new: break
    out = [show(h) for h in head] + decls + ['(assert %s)' % show(g) for g in ground] + ['(check-sat)']
    open('/tmp/ginst.smt2', 'w').write('\n'.join(out))
    for cmd in (['z3-new', '-T:20', '-smt2', '/tmp/ginst.smt2'], ['cvc5', '--tlimit=20000', '/tmp/ginst.smt2']):
        t0 = time.time(); r = subprocess.run(cmd, capture_output=True, text=True); print(cmd[0], r.stdout.split('\n')[0], round(time.time()-t0, 2))
main()
