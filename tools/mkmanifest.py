#!/usr/bin/env python3
"""Regenerates /verif/MANIFEST.json from /verif/tools/manifest_src.json (claimed checks + not_applicable)."""
import json, subprocess, sys
src = json.load(open('/verif/tools/manifest_src.json'))
props = [json.loads(l)['id'] for l in open('/verif/properties.jsonl')]
checks = []
for c in src['checks']:
    pid = c['property_id']
    checks.append({
        "property_id": pid,
        "quick_cmd": f"/verif/bin/govc check --property {pid} --tier quick",
        "thorough_cmd": f"/verif/bin/govc check --property {pid} --tier thorough",
        "evidence_file": f"/verif/evidence/{pid}.json",
        "replay_cmd_template": "/verif/bin/govc replay {path}",
        "engine": "govc",
        "level_claimed": {"category": "proof", "text": c['level_text'], "design_ref": c.get('design_ref', 'DESIGN.md §6')},
        "level_note": c['level_note'],
        "technique": c.get('technique', "contract-based deductive verification: weakest-precondition style VCs over go/ssa of the real code, contracts in //@ comments, discharged by z3/cvc5"),
    })
claimed = {c['property_id'] for c in checks}
na = [x for x in src['not_applicable'] if x['property_id'] not in claimed]
missing = [p for p in props if p not in claimed and p not in {x['property_id'] for x in na}]
if missing:
    print("properties neither claimed nor not_applicable:", missing, file=sys.stderr); sys.exit(1)
hooks = subprocess.run(['git', '-C', '/repo', 'log', '--format=%H %s', 'b37a051..HEAD'], capture_output=True, text=True).stdout.strip().split('\n')
hook_commits = [l.split()[0] for l in hooks if l and ' verif:' in l]
m = {
    "version": 1,
    "setup_cmd": "cd /verif/engine && GOFLAGS=-mod=vendor GOPROXY=off GOSUMDB=off GOTOOLCHAIN=local go build -o /verif/bin/govc ./cmd/govc",
    "hooks": {
        "guard": "verif",
        "enable": "go/packages loads /repo with -tags verif; the guarded files zz_contracts_verif.go are comment-only contract files (package clause + //@ lines)",
        "baseline_off_cmd": "cd /repo && GOFLAGS=-mod=mod GOPROXY=off GOSUMDB=off go test -json -vet=off -count=1 -timeout 25m ./...",
        "source_commits": hook_commits,
        "add_only": True,
    },
    "engines": [{"name": "govc", "path": "/verif/engine", "serves_properties": sorted(claimed),
                 "kind_free_text": "VC generator for Go written for this task: go/packages+go/ssa (NaiveForm) symbolic execution of the functions under contract, Gobra-style contracts in guarded comment files, SMT-LIB queries raced on z3 5.1, z3 4.8.12, cvc5 1.0.3"}],
    "checks": checks,
    "not_applicable": na,
    "notes": src.get('notes', ''),
}
json.dump(m, open('/verif/MANIFEST.json', 'w'), indent=1)
print("MANIFEST.json:", len(checks), "checks,", len(na), "not applicable")
