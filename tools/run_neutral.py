#!/usr/bin/env python3
"""Apply every behaviour-preserving refactoring under /verif/neutral/<id>/refactor_k.diff to /repo in turn, run the quick
check of every property that has a function in the touched package(s), revert.  A VIOLATION here is a false alarm of the
machinery.  Usage: run_neutral.py [ids...]"""
import json, os, re, subprocess, sys, time
root = '/verif/neutral'
REPO = os.environ.get('NEUTRAL_REPO', '/repo')  # a scratch worktree may stand in for /repo (parallel runs)
lst = subprocess.run(['/verif/bin/govc', 'list'], capture_output=True, text=True).stdout
pkgprops = {}
funcs_of = {}
cur = None
for line in lst.split('\n'):
    if re.match(r'^C\d+', line):
        cur = line.strip()
    elif line.startswith('  ') and cur:
        pkg = line.strip().split(':')[0]
        pkgprops.setdefault(pkg, set()).add(cur)
        funcs_of.setdefault(cur, []).append(line.strip())
pkgprops.setdefault('vnet', set()).add('C19'); pkgprops.setdefault('packetio', set()).add('C19')
for p in ('deadline', 'dpipe', 'udp'):
    pkgprops.setdefault(p, set()).add('C19')
ids = sys.argv[1:] or sorted(x for x in os.listdir(root) if os.path.isdir(os.path.join(root, x)))
results = []
for nid in ids:
    d = os.path.join(root, nid)
    for f in sorted(os.listdir(d)):
        if not f.endswith('.diff'):
            continue
        path = os.path.join(d, f)
        assert subprocess.run(['git', '-C', REPO, 'status', '--porcelain', '--untracked-files=no'], capture_output=True, text=True).stdout.strip() == '', 'repo dirty'
        r = subprocess.run(['git', '-C', REPO, 'apply', path], capture_output=True, text=True)
        if r.returncode != 0:
            print(nid, f, 'DOES NOT APPLY', r.stderr[:200]); continue
        text = open(path).read()
        pkgs = set(os.path.dirname(m) for m in re.findall(r'^\+\+\+ b/(\S+)', text, re.M))
        props = sorted(set().union(*[pkgprops.get(p, set()) for p in pkgs]))
        # narrow to the properties whose functions are named in the hunks (fall back to the whole package)
        names = set(re.findall(r'func (?:\([^)]*\) )?(\w+)\(', text))
        narrowed = set()
        for prop, fl in funcs_of.items():
            if prop in props and any(f.split(':')[0] in pkgs and f.split('.')[-1].split('$')[0] in names for f in fl):
                narrowed.add(prop)
        if narrowed and os.environ.get('NEUTRAL_ALL') is None:
            props = sorted(narrowed | ({'C19'} & set(props)))
        if os.environ.get('NEUTRAL_PROPS'):
            props = [p for p in props if p in os.environ['NEUTRAL_PROPS'].split(',')]
        out = {}
        try:
            for p in props:
                rr = subprocess.run(['/verif/bin/govc', 'check', '--repo', REPO, '--property', p, '--tier', 'quick', '--no-evidence'], capture_output=True, text=True, timeout=1500)
                failed = re.findall(r'^\s+FAILED (\S+)', rr.stdout, re.M)
                eng = re.findall(r'^ENGINE-ERROR: (.*)', rr.stdout, re.M)
                out[p] = {'exit': rr.returncode, 'failed': failed, 'engine': eng[:2]}
        finally:
            subprocess.run(['git', '-C', REPO, 'checkout', '--', '.'])
        bad = {p: v for p, v in out.items() if v['exit'] != 0}
        print(nid, f, 'props', props, 'FALSE-ALARM' if bad else 'quiet', json.dumps(bad)[:600])
        results.append({'id': nid, 'diff': f, 'properties': props, 'alarms': bad})
# merge into the stored results (keyed by corpus id and diff)
outp = os.environ.get('NEUTRAL_OUT', '/verif/neutral/results.json')
old = []
if os.path.exists(outp):
    try:
        old = json.load(open(outp))
    except Exception:
        old = []
done = {(r['id'], r['diff']) for r in results}
merged = [r for r in old if (r['id'], r['diff']) not in done] + results
merged.sort(key=lambda r: (r['id'], r['diff']))
json.dump(merged, open(outp, 'w'), indent=1)
