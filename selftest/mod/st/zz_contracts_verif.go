//go:build verif

package st

// Engine self-test contracts: every good* function must verify, every bad* function must have the obligation named in
// /verif/selftest/expect.json refuted or left undischarged.

//@ arith int
//@ field box a owned

//@ func (b *box) loopInline()
//@   modifies b.a[*]
//@   ensures [all] forall k mathint :: {b.a[k]} 0 <= k && k < len(b.a) ==> b.a[k] == 7
//@   loop 1 invariant [range] 0 <= i && i <= len(b.a)
//@   loop 1 invariant [done] forall k mathint :: {b.a[k]} 0 <= k && k < i ==> b.a[k] == 7

//@ func (b *box) loopInlineBad()
//@   modifies b.a[*]
//@   ensures [unchanged] forall k mathint :: {b.a[k]} 0 <= k && k < len(b.a) ==> b.a[k] == old(b.a[k])
//@   loop 1 invariant [range] 0 <= i && i <= len(b.a)

//@ func closureCount(n int) (r int)
//@   requires n >= 0
//@   ensures [count] r == n
//@   loop 1 invariant [c] 0 <= i && i <= n && c == i

//@ func closureCountBad(n int) (r int)
//@   requires n >= 0
//@   ensures [zero] r == 0
//@   loop 1 invariant [range] 0 <= i && i <= n

//@ func loopPtr(p *box, n int)
//@   requires n >= 0 && p != nil && n < 1000000 && 0 <= p.x && p.x < 1000000
//@   modifies p.x
//@   ensures [x] p.x == old(p.x) + n
//@   loop 1 invariant [x] 0 <= i && i <= n && p.x == old(p.x) + i

//@ func loopPtrBad(p *box, n int)
//@   requires n >= 0 && p != nil
//@   modifies p.x
//@   ensures [same] p.x == old(p.x)
//@   loop 1 invariant [range] 0 <= i && i <= n

//@ func (b *box) setX(v int)
//@   modifies b.x
//@   ensures [x] b.x == v

//@ func frameGood(b *box)
//@   requires b != nil
//@   modifies b.x
//@   ensures [y] b.y == old(b.y) && b.x == 3

//@ func frameBad(b *box)
//@   requires b != nil
//@   modifies b.x
//@   ensures [x] b.x == old(b.x)

//@ func aliasGood(a []int, b []int)
//@   requires len(a) > 0 && len(b) > 0 && base(a) != base(b)
//@   modifies a[*]
//@   ensures [b] b[0] == old(b[0])

//@ func aliasBad(a []int, b []int)
//@   requires len(a) > 0 && len(b) > 0
//@   modifies a[*]
//@   ensures [b] b[0] == old(b[0])

//@ func appendGood(a []int) (r []int)
//@   modifies a[*]
//@   ensures [len] len(r) == len(a) + 1 && r[len(a)] == 5
//@   ensures [keep] forall k mathint :: {r[k]} 0 <= k && k < len(a) ==> r[k] == old(a[k])

//@ func appendBad(a []int) (r []int)
//@   requires len(a) > 0
//@   modifies a[*]
//@   ensures [orig] a[0] == old(a[0])

//@ func copyGood(p *pt) (r int)
//@   requires p != nil
//@   ensures [u] r == old(p.u) && p.u == old(p.u)

//@ func copyBad(p *pt) (r int)
//@   requires p != nil
//@   modifies p.u
//@   ensures [u] r == old(p.u)

//@ func divGood(a int) (r int)
//@   ensures [trunc] (a == -3 ==> r == -1) && (a == 3 ==> r == 1) && (a == -1 ==> r == 0)

//@ func divBad(a int) (r int)
//@   ensures [floor] a == -3 ==> r == -2

//@ func remGood(a int) (r int)
//@   ensures [sign] (a == -4 ==> r == -1) && (a == 4 ==> r == 1)

//@ func remBad(a int) (r int)
//@   ensures [nonneg] r >= 0

//@ func subWrap(a uint64, b uint64) (r uint64)
//@   arith bv64
//@   ensures [wrap] a == 0 && b == 1 ==> r == 18446744073709551615

//@ func subWrapBad(a uint64, b uint64) (r uint64)
//@   arith bv64
//@   ensures [le] r <= a

//@ func shlBig(a uint64, n uint) (r uint64)
//@   arith bv64
//@   ensures [zero] n >= 64 ==> r == 0

//@ func shlBigBad(a uint64, n uint) (r uint64)
//@   arith bv64
//@   ensures [mod] n == 64 ==> r == a

//@ func narrow(a int) (r uint8)
//@   ensures [mod] a == 257 ==> r == 1

//@ func narrowBad(a int) (r uint8)
//@   ensures [same] a >= 0 ==> int(r) == a

//@ func (b *box) mapGood(k int) (r int)
//@   requires b.m != nil && k < 1000
//@   modifies b.m[*]
//@   ensures [r] r == 4 && (k in b.m) && !((k+1) in b.m)

//@ func (b *box) mapBad(k int) (r int)
//@   requires b.m != nil
//@   modifies b.m[*]
//@   ensures [r] r == 4

//@ func (b *box) mapLoop(n int)
//@   requires b.m != nil && n >= 0
//@   modifies b.m[*]
//@   ensures [all] forall k int :: {k in b.m} 0 <= k && k < n ==> (k in b.m)
//@   loop 1 invariant [done] 0 <= i && i <= n && (forall k int :: {k in b.m} 0 <= k && k < i ==> (k in b.m))

//@ func (b *box) mapLoopBad(n int)
//@   requires b.m != nil && n >= 0
//@   modifies b.m[*]
//@   ensures [none] forall k int :: {k in b.m} (k in b.m) == old(k in b.m)
//@   loop 1 invariant [range] 0 <= i && i <= n

//@ func find(a []int, x int) (r int)
//@   ensures [hit] r >= 0 ==> r < len(a) && a[r] == x
//@   ensures [miss] r < 0 ==> (forall k mathint :: {a[k]} 0 <= k && k < len(a) ==> a[k] != x)
//@   loop 1 invariant [range] 0 <= rangeindex + 1 && rangeindex < len(a)
//@   loop 1 invariant [seen] forall k mathint :: {a[k]} 0 <= k && k <= rangeindex && k < len(a) ==> a[k] != x

//@ func findBad(a []int, x int) (r int)
//@   ensures [never] r < 0

//@ func deferGood() (r int)
//@   ensures [two] r == 2

//@ func deferBad() (r int)
//@   ensures [one] r == 1

//@ func shortGood(a []int, i int) (r bool)
//@   ensures [r] r ==> a[i] == 0

//@ func shortBad(a []int, i int) (r bool)
//@   ensures [r] r ==> i <= len(a)

//@ func nilGood(b *box) (r int)
//@   ensures [r] b != nil ==> r == b.x

//@ func nilBad(b *box) (r int)
//@   requires b != nil
//@   ensures [r] true

//@ monitor mon mu: n
//@ invariant (m *mon) nonneg: m.n >= 0 && m.n < 1000000

//@ func (m *mon) incGood()
//@   ensures true

//@ func (m *mon) incBad()
//@   ensures true

//@ func (m *mon) incBreaks()
//@   ensures true

//@ func chanGood(c chan int)
//@   requires c != nil && !closed(c)
//@   ensures [closed] closed(c)

//@ func chanBad(c chan int)
//@   requires c != nil && !closed(c)
//@   ensures [closed] closed(c)

//@ func dynGood(d doer, b *box, c *box) (r int)
//@   requires c != nil
//@   modifies c.x
//@   ensures [r] r == 1

//@ func dynBad(d doer, b *box) (r int)
//@   requires b != nil && d != nil
//@   modifies b.x
//@   ensures [r] r == 1

//@ func nested(n int) (r int)
//@   requires n >= 0 && n < 1000000
//@   ensures [r] r == 2*n
//@   loop 1 invariant [s] 0 <= i && i <= n && s == 2*i
//@   loop 2 invariant [s] 0 <= j && j <= 2 && s == 2*i + j && 0 <= i && i < n

//@ func nestedBad(n int) (r int)
//@   requires n >= 0
//@   ensures [r] r == n
//@   loop 1 invariant [s] 0 <= i && i <= n
//@   loop 2 invariant [s] 0 <= j && j <= 2 && 0 <= i && i < n

//@ func sw(x int) (r int)
//@   ensures [r] (x < 0 ==> r == -1) && (x == 0 ==> r == 0) && (x == 1 ==> r == 0) && (x > 1 ==> r == 1)

//@ func swBad(x int) (r int)
//@   ensures [r] x == 0 ==> r == 1

//@ func copyFn(dst []byte, src []byte) (r int)
//@   requires base(dst) != base(src)
//@   modifies dst[*]
//@   ensures [n] r == min(len(dst), len(src))
//@   ensures [bytes] forall k mathint :: {dst[k]} 0 <= k && k < r ==> dst[k] == src[k]

//@ func copyFnBad(dst []byte, src []byte) (r int)
//@   modifies dst[*]
//@   ensures [n] r == len(src)

//@ func subslice(a []int)
//@   requires len(a) >= 3
//@   modifies a[*]
//@   ensures [a1] a[1] == 9 && a[0] == old(a[0]) && a[2] == old(a[2])

//@ func subsliceBad(a []int)
//@   requires len(a) >= 3
//@   modifies a[*]
//@   ensures [a1] a[1] == old(a[1])

//@ func ptrLocal(n int) (r int)
//@   requires n >= 0
//@   ensures [r] r == n
//@   loop 1 invariant [s] 0 <= i && i <= n && s == i

//@ func ptrLocalBad(n int) (r int)
//@   requires n >= 0
//@   ensures [r] r == 0
//@   loop 1 invariant [range] 0 <= i && i <= n

//@ func appendRead(a []int) (r int)
//@   modifies a[*]
//@   ensures [five] r == 5

//@ func appendSlices(a [][]byte, b [][]byte) (r [][]byte)
//@   modifies a[*]
//@   ensures [len] len(r) == len(a) + len(b)
//@   ensures [head] forall k mathint :: {r[k]} 0 <= k && k < len(a) ==> r[k] == old(a[k])
//@   ensures [tail] forall k mathint :: {r[k]} len(a) <= k && k < len(r) ==> r[k] == old(b[k - len(a)])

//@ func appendSlicesBad(a [][]byte, b [][]byte) (r [][]byte)
//@   requires len(b) > 0
//@   modifies a[*]
//@   ensures [bkept] b[0] == old(b[0])

//@ monitor holder mu: q, s
//@ pure apart(a [][]byte, b [][]byte) bool = base(a) == 0 || base(b) == 0 || base(a) != base(b)
//@ invariant (h *holder) sep: apart(h.q, h.s) && allocated(base(h.q)) && allocated(base(h.s))
//@ func (h *holder) flush(d []byte)
//@   ensures [len] len(h.q) == atlock(len(h.q)) + atlock(len(h.s)) + 1 && len(h.s) == 0
//@   ensures [head] forall k mathint :: {h.q[k]} 0 <= k && k < atlock(len(h.q)) ==> h.q[k] == atlock(h.q[k])
//@   ensures [mid] forall k mathint :: {h.q[k]} atlock(len(h.q)) <= k && k < atlock(len(h.q)) + atlock(len(h.s)) ==> h.q[k] == atlock(h.s[k - atlock(len(h.q))])
//@   ensures [last] h.q[len(h.q) - 1] == d

//@ func mirror(s [][]byte)
//@   modifies s[*]
//@   ensures [mirror] forall k mathint :: {s[k]} 0 <= k && k < len(s) ==> s[k] == old(s[len(s) - 1 - k])
//@   loop 1 invariant [mirror] 0 <= i && 2 * i <= len(s) && j == len(s) - 1 - i &&
//@        (forall k mathint :: {s[k]} 0 <= k && k < i ==> s[k] == old(s[len(s) - 1 - k])) &&
//@        (forall k mathint :: {s[k]} len(s) - 1 - i < k && k < len(s) ==> s[k] == old(s[len(s) - 1 - k])) &&
//@        (forall k mathint :: {s[k]} i <= k && k <= len(s) - 1 - i ==> s[k] == old(s[k]))

//@ func (h *holder) flushMirror(d []byte)
//@   ensures [len] len(h.q) == atlock(len(h.q)) + atlock(len(h.s)) + 1 && len(h.s) == 0
//@   ensures [head] forall k mathint :: {h.q[k]} 0 <= k && k < atlock(len(h.q)) ==> h.q[k] == atlock(h.q[k])
//@   ensures [first] h.q[atlock(len(h.q))] == d
//@   ensures [rest] forall k mathint :: {h.q[k]} atlock(len(h.q)) < k && k < len(h.q) ==> h.q[k] == atlock(h.s[atlock(len(h.q)) + atlock(len(h.s)) - k])

//@ func (m *mon) get() (r int)
//@   ensures [r] r >= 0

//@ func twoReads(m *mon) (r bool)
//@   requires m != nil
//@   ensures [same] r

//@ func byValue(p pt) (r int)
//@   ensures [r] r == 9

//@ func callByValue(q *pt) (r int)
//@   requires q != nil
//@   ensures [r] r == old(q.u)

//@ func callByValueBad(q *pt) (r int)
//@   requires q != nil
//@   ensures [r] r == 9

//@ func kind(s shape) (r int)
//@   ensures [sq] typeis(s, sq) ==> r == 1
//@   ensures [rc] typeis(s, rc) ==> r == 2

//@ func kindBad(s shape) (r int)
//@   ensures [pos] r >= 1

//@ func arrCopy(a [4]int) (r int)
//@   ensures [r] r == a[0]

//@ func arrCopyBad(a [4]int) (r int)
//@   ensures [r] r == 0

//@ func lowByte(x uint32) (r uint32)
//@   ensures [r] r <= 255 && (x == 511 ==> r == 255) && (x == 256 ==> r == 0)
//@ func lowByteBad(x uint32) (r uint32)
//@   ensures [r] r == x
//@ func shr(x uint32) (r uint32)
//@   ensures [r] (x == 255 ==> r == 15) && r <= x
//@ func shrBad(x uint32) (r uint32)
//@   ensures [r] x > 0 ==> r > 0
//@ func orBits(x uint8, y uint8) (r uint8)
//@   ensures [r] r >= x && r >= y
//@ func orBitsBad(x uint8, y uint8) (r uint8)
//@   ensures [r] int(r) == int(x) + int(y)
//@ func sconv(x int) (r int8)
//@   ensures [r] (x == 200 ==> r == -56) && (x == -129 ==> r == 127)
//@ func sconvBad(x int) (r int8)
//@   ensures [r] x >= 0 ==> r >= 0
//@ func u2s(x uint64) (r int64)
//@   ensures [r] x == 18446744073709551615 ==> r == -1
//@ func u2sBad(x uint64) (r int64)
//@   ensures [r] r >= 0

//@ func shiftLeft(a []int)
//@   requires len(a) >= 2
//@   modifies a[*]
//@   ensures [moved] forall k mathint :: {a[k]} 0 <= k && k < len(a) - 1 ==> a[k] == old(a[k+1])
//@   ensures [last] a[len(a)-1] == old(a[len(a)-1])

//@ func shiftLeftBad(a []int)
//@   requires len(a) >= 3
//@   modifies a[*]
//@   ensures [smear] a[1] == old(a[1])

//@ func elemPtr(a []int) (r int)
//@   requires len(a) > 0
//@   modifies a[*]
//@   ensures [r] r == 3 && a[0] == 3

//@ func elemPtrBad(a []int) (r int)
//@   requires len(a) > 0
//@   modifies a[*]
//@   ensures [r] r == old(a[0])

//@ func countPos(a [][]int) (r int)
//@   ensures [r] 0 <= r && r <= len(a)
//@   loop 1 invariant [n] 0 <= i && i <= len(a) && 0 <= n && n <= i
//@   loop 2 invariant [j] 0 <= j && j <= len(a[i]) && 0 <= i && i < len(a) && 0 <= n && n <= i

//@ func countPosBad(a [][]int) (r int)
//@   ensures [r] r == len(a)
//@   loop 1 invariant [n] 0 <= i && i <= len(a) && 0 <= n && n <= i
//@   loop 2 invariant [j] 0 <= j && j <= len(a[i]) && 0 <= i && i < len(a) && 0 <= n && n <= i

//@ func capLimited(a []int) (r []int)
//@   requires len(a) >= 2
//@   ensures [kept] a[1] == old(a[1]) && len(r) == 2 && r[1] == 4

//@ func capLimitedBad(a []int) (r []int)
//@   requires len(a) >= 2
//@   modifies a[*]
//@   ensures [kept] a[1] == old(a[1])

//@ func useDivmod(a int) (r int)
//@   ensures [r] r == a

//@ func useDivmodBad(a int) (r int)
//@   ensures [r] r == a + 1

//@ func capture() (r int)
//@   ensures [r] r == 2

//@ func captureBad() (r int)
//@   ensures [r] r == 1

//@ func forkJoin$1()
//@   requires a != nil
//@   modifies a.v
//@   ensures [v] a.v == 5

//@ func forkJoin(a *acc) (r int)
//@   requires a != nil
//@   modifies a.v
//@   ensures [r] r == 5

//@ func forkNoJoinBad$1()
//@   requires a != nil
//@   modifies a.v
//@   ensures [v] a.v == 5

//@ func forkNoJoinBad(a *acc) (r int)
//@   requires a != nil
//@   modifies a.v
//@   ensures [r] r == 5

//@ func (l *lazy) init()
//@   modifies l.v
//@   ensures [done] oncedone(l.once)
//@   ensures [v] !old(oncedone(l.once)) ==> l.v == 7

//@ func (l *lazy) initBad()
//@   modifies l.v
//@   ensures [v] l.v == 7

//@ field pipe ch openchan
//@ func (p *pipe) sendOne()
//@   requires p.ch != nil
//@   ensures [sent] lastsend() >= old(sent(p.ch)) && lastsend() < sent(p.ch) && msg(p.ch, lastsend()) == 1

//@ func (p *pipe) sendOneBad()
//@   requires p.ch != nil
//@   ensures [none] sent(p.ch) == old(sent(p.ch))

// a channel that anybody may close concurrently: the send can panic
//@ func sendRaw(c chan int)
//@   requires c != nil && !closed(c)
//@   ensures true

//@ func recvOne(c chan int) (r int)
//@   requires c != nil
//@   ensures [got] closed(c) || (lastrecv() >= old(recvd(c)) && lastrecv() < recvd(c) && r == msg(c, lastrecv()))

//@ func recvOneBad(c chan int) (r int)
//@   requires c != nil
//@   ensures [one] r == 1

//@ monitor rw mu: n
//@ invariant (r *rw) small: r.n >= 0
//@ func (r *rw) goodRead() (x int)
//@   ensures [x] x >= 0
//@ func (r *rw) badWrite()
//@   ensures true
//@ func (m *mon) leak()
//@   ensures true
//@ func (m *mon) doubleUnlock()
//@   ensures true
//@ func (m *mon) staleBad() (r bool)
//@   ensures [same] r

// the counting loop is annotated in terms of the hidden range counter, the range loop in terms of the counter i
//@ func fillCounting(a []int)
//@   modifies a[*]
//@   ensures [ones] forall k mathint :: {a[k]} 0 <= k && k < len(a) ==> a[k] == 1
//@   loop 1 invariant [r] -1 <= rangeindex && rangeindex < len(a) && (forall k mathint :: {a[k]} 0 <= k && k <= rangeindex ==> a[k] == 1)

//@ func fillRange(a []int)
//@   modifies a[*]
//@   ensures [ones] forall k mathint :: {a[k]} 0 <= k && k < len(a) ==> a[k] == 1
//@   loop 1 invariant [r] 0 <= i && i <= len(a) && (forall k mathint :: {a[k]} 0 <= k && k < i ==> a[k] == 1)

//@ func fillRangeBad(a []int)
//@   modifies a[*]
//@   ensures [ones] forall k mathint :: {a[k]} 0 <= k && k < len(a) ==> a[k] == 1
//@   loop 1 invariant [r] 0 <= i && i <= len(a) && (forall k mathint :: {a[k]} 0 <= k && k < i ==> a[k] == 1)

//@ func fillCountingBad(a []int)
//@   modifies a[*]
//@   ensures [ones] forall k mathint :: {a[k]} 0 <= k && k < len(a) ==> a[k] == 1
//@   loop 1 invariant [r] -1 <= rangeindex && rangeindex < len(a) && (forall k mathint :: {a[k]} 0 <= k && k <= rangeindex ==> a[k] == 1)
