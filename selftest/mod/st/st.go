// Package st is the engine self-test corpus of /verif: tiny functions with one contract that must verify (good*) and one
// that must be refuted (bad*).  It is not part of pion/transport; it shares the module path so that govc treats it alike.
package st

import "sync"

type box struct {
	a    []int
	x, y int
	m    map[int]int
	next *box
}

// ---- 1. loop body calls an uncontracted helper that writes the heap
func (b *box) setAt(i int) { b.a[i] = 7 }

func (b *box) loopInline() {
	for i := 0; i < len(b.a); i++ {
		b.setAt(i)
	}
}

func (b *box) loopInlineBad() {
	for i := 0; i < len(b.a); i++ {
		b.setAt(i)
	}
}

// ---- 2. closure writing a captured local inside a loop
func closureCount(n int) int {
	c := 0
	inc := func() { c++ }
	for i := 0; i < n; i++ {
		inc()
	}
	return c
}

func closureCountBad(n int) int {
	c := 0
	inc := func() { c++ }
	for i := 0; i < n; i++ {
		inc()
	}
	return c
}

// ---- 3. helper writing through a pointer parameter inside a loop
func bump(p *box) { p.x++ }

func loopPtr(p *box, n int) {
	for i := 0; i < n; i++ {
		bump(p)
	}
}

func loopPtrBad(p *box, n int) {
	for i := 0; i < n; i++ {
		bump(p)
	}
}

// ---- 4. frame of a callee under contract
func (b *box) setX(v int) { b.x = v }

func frameGood(b *box) { b.setX(3) }
func frameBad(b *box)  { b.setX(3) }

// ---- 5. aliasing of slice parameters
func aliasGood(a, b []int) {
	a[0] = 1
}

func aliasBad(a, b []int) {
	a[0] = 1
}

// ---- 6. append may or may not reallocate
func appendGood(a []int) []int {
	r := append(a, 5)
	return r
}

func appendBad(a []int) []int {
	r := append(a, 5)
	r[0] = 9
	return r
}

// ---- 7. struct value copy vs pointer alias
type pt struct{ u, v int }

func copyGood(p *pt) int {
	q := *p
	q.u = 5
	return p.u
}

func copyBad(p *pt) int {
	q := p
	q.u = 5
	return p.u
}

// ---- 8. integer division and remainder round toward zero
func divGood(a int) int { return a / 2 }
func divBad(a int) int  { return a / 2 }
func remGood(a int) int { return a % 3 }
func remBad(a int) int  { return a % 3 }

// ---- 9. unsigned wrap-around and shifts (bit-vector arithmetic)
func subWrap(a, b uint64) uint64    { return a - b }
func subWrapBad(a, b uint64) uint64 { return a - b }
func shlBig(a uint64, n uint) uint64 {
	return a << n
}
func shlBigBad(a uint64, n uint) uint64 {
	return a << n
}
func narrow(a int) uint8    { return uint8(a) }
func narrowBad(a int) uint8 { return uint8(a) }

// ---- 10. map update / delete / lookup
func (b *box) mapGood(k int) int {
	b.m[k] = 4
	delete(b.m, k+1)
	return b.m[k]
}

func (b *box) mapBad(k int) int {
	b.m[k] = 4
	delete(b.m, k)
	return b.m[k]
}

// ---- 11. map update inside a loop
func (b *box) mapLoop(n int) {
	for i := 0; i < n; i++ {
		b.m[i] = 1
	}
}

func (b *box) mapLoopBad(n int) {
	for i := 0; i < n; i++ {
		b.m[i] = 1
	}
}

// ---- 12. range over a slice, sum with early exit
func find(a []int, x int) int {
	for i, v := range a {
		if v == x {
			return i
		}
	}
	return -1
}

func findBad(a []int, x int) int {
	for i, v := range a {
		if v == x {
			return i
		}
	}
	return -1
}

// ---- 13. defer runs after the return value is set; named results can be changed by defers
func deferGood() (r int) {
	defer func() { r++ }()
	return 1
}

func deferBad() (r int) {
	defer func() { r++ }()
	return 1
}

// ---- 14. short-circuit evaluation protects the index
func shortGood(a []int, i int) bool { return i >= 0 && i < len(a) && a[i] == 0 }
func shortBad(a []int, i int) bool  { return i >= 0 && i <= len(a) && a[i] == 0 }

// ---- 15. nil dereference
func nilGood(b *box) int {
	if b == nil {
		return 0
	}
	return b.x
}
func nilBad(b *box) int { return b.next.x }

// ---- 16. monitor: guarded field touched without the lock
type mon struct {
	mu sync.Mutex
	n  int
}

func (m *mon) incGood() {
	m.mu.Lock()
	if m.n < 100 {
		m.n++
	}
	m.mu.Unlock()
}

func (m *mon) incBad() {
	m.n++
}

func (m *mon) incBreaks() {
	m.mu.Lock()
	m.n = -1
	m.mu.Unlock()
}

// ---- 17. channels: a buffered send does not change other channels' closed state; close twice panics
func chanGood(c chan int) {
	close(c)
}
func chanBad(c chan int) {
	close(c)
	close(c)
}

// ---- 18. interface call without contract havocs what it may reach
type doer interface{ do(b *box) }

func dynGood(d doer, b *box, c *box) int {
	c.x = 1
	return c.x
}

func dynBad(d doer, b *box) int {
	b.x = 1
	d.do(b)
	return b.x
}

// ---- 19. nested loops
func nested(n int) int {
	s := 0
	for i := 0; i < n; i++ {
		for j := 0; j < 2; j++ {
			s++
		}
	}
	return s
}

func nestedBad(n int) int {
	s := 0
	for i := 0; i < n; i++ {
		for j := 0; j < 2; j++ {
			s++
		}
	}
	return s
}

// ---- 20. switch with fallthrough / default
func sw(x int) int {
	switch {
	case x < 0:
		return -1
	case x == 0:
		fallthrough
	case x == 1:
		return 0
	default:
		return 1
	}
}

func swBad(x int) int {
	switch {
	case x < 0:
		return -1
	case x == 0:
		fallthrough
	case x == 1:
		return 0
	default:
		return 1
	}
}

// ---- 21. copy() semantics: min of lengths, overlapping
func copyFn(dst, src []byte) int { return copy(dst, src) }
func copyFnBad(dst, src []byte) int {
	return copy(dst, src)
}

// ---- 22. sub-slicing shares the array
func subslice(a []int) {
	b := a[1:3]
	b[0] = 9
}
func subsliceBad(a []int) {
	b := a[1:3]
	b[0] = 9
}

// ---- 23. loop that modifies a local through its address in an inlined helper
func addTo(p *int, v int) { *p += v }

func ptrLocal(n int) int {
	s := 0
	for i := 0; i < n; i++ {
		addTo(&s, 1)
	}
	return s
}

func ptrLocalBad(n int) int {
	s := 0
	for i := 0; i < n; i++ {
		addTo(&s, 1)
	}
	return s
}

// ---- 24. append: read back the appended elements on both the in-place and the reallocating path
func appendRead(a []int) int {
	r := append(a, 5)
	return r[len(a)]
}

func appendSlices(a, b [][]byte) [][]byte {
	return append(a, b...)
}

func appendSlicesBad(a, b [][]byte) [][]byte {
	return append(a, b...)
}

type holder struct {
	mu sync.Mutex
	q  [][]byte
	s  [][]byte
}

func (h *holder) flush(d []byte) {
	h.mu.Lock()
	defer h.mu.Unlock()
	h.s = append(h.s, d)
	h.q = append(h.q, h.s...)
	h.s = nil
}

func mirror(s [][]byte) {
	for i, j := 0, len(s)-1; i < j; i, j = i+1, j-1 {
		s[i], s[j] = s[j], s[i]
	}
}

func (h *holder) flushMirror(d []byte) {
	h.mu.Lock()
	defer h.mu.Unlock()
	h.s = append(h.s, d)
	mirror(h.s)
	h.q = append(h.q, h.s...)
	h.s = nil
}

// ---- 25. caller of a monitor method cannot assume the guarded state it saw before the call
func (m *mon) get() int {
	m.mu.Lock()
	defer m.mu.Unlock()
	return m.n
}

func twoReads(m *mon) bool {
	a := m.get()
	b := m.get()
	return a == b
}

// ---- 26. struct passed by value is a copy
func byValue(p pt) int {
	p.u = 9
	return p.u
}

func callByValue(q *pt) int {
	byValue(*q)
	return q.u
}

func callByValueBad(q *pt) int {
	byValue(*q)
	return q.u
}

// ---- 27. comma-ok type assertion and type switch
type shape interface{ area() int }
type sq struct{ s int }
type rc struct{ w, h int }

func (x sq) area() int { return x.s * x.s }
func (x rc) area() int { return x.w * x.h }

func kind(s shape) int {
	if _, ok := s.(sq); ok {
		return 1
	}
	switch s.(type) {
	case rc:
		return 2
	}
	return 0
}

func kindBad(s shape) int {
	if _, ok := s.(sq); ok {
		return 1
	}
	switch s.(type) {
	case rc:
		return 2
	}
	return 0
}

// ---- 28. fixed-size arrays are values
func arrCopy(a [4]int) int {
	b := a
	b[0] = 7
	return a[0]
}

func arrCopyBad(a [4]int) int {
	b := a
	b[0] = 7
	return b[0] - a[0]
}

// ---- 29. bit operations on mathematical integers
func lowByte(x uint32) uint32    { return x & 0xff }
func lowByteBad(x uint32) uint32 { return x & 0xff }
func shr(x uint32) uint32        { return x >> 4 }
func shrBad(x uint32) uint32     { return x >> 4 }
func orBits(x, y uint8) uint8    { return x | y }
func orBitsBad(x, y uint8) uint8 { return x | y }
func sconv(x int) int8           { return int8(x) }
func sconvBad(x int) int8        { return int8(x) }
func u2s(x uint64) int64         { return int64(x) }
func u2sBad(x uint64) int64      { return int64(x) }

// ---- 30. overlapping copy behaves like memmove
func shiftLeft(a []int) {
	copy(a, a[1:])
}

func shiftLeftBad(a []int) {
	copy(a, a[1:])
}

// ---- 31. pointer to a slice element aliases the slice
func elemPtr(a []int) int {
	p := &a[0]
	*p = 3
	return a[0]
}

func elemPtrBad(a []int) int {
	p := &a[0]
	*p = 3
	return a[0]
}

// ---- 32. labelled continue / break
func countPos(a [][]int) int {
	n := 0
outer:
	for i := 0; i < len(a); i++ {
		for j := 0; j < len(a[i]); j++ {
			if a[i][j] < 0 {
				continue outer
			}
		}
		n++
	}
	return n
}

func countPosBad(a [][]int) int {
	n := 0
outer:
	for i := 0; i < len(a); i++ {
		for j := 0; j < len(a[i]); j++ {
			if a[i][j] < 0 {
				continue outer
			}
		}
		n++
	}
	return n
}

// ---- 33. three-index slices limit the capacity: append must reallocate
func capLimited(a []int) []int {
	b := a[0:1:1]
	return append(b, 4)
}

func capLimitedBad(a []int) []int {
	b := a[0:1]
	return append(b, 4)
}

// ---- 34. multiple results
func divmod(a, b int) (int, int) { return a / b, a % b }
func useDivmod(a int) int {
	q, r := divmod(a, 3)
	return q*3 + r
}
func useDivmodBad(a int) int {
	q, r := divmod(a, 3)
	return q*3 + r
}

// ---- 35. variable captured by a closure is shared, not copied
func capture() int {
	x := 1
	f := func() { x = 2 }
	f()
	return x
}

func captureBad() int {
	x := 1
	f := func() { x = 2 }
	f()
	return x
}

// ---- 36. fork / join through a WaitGroup
type acc struct{ v int }

func forkJoin(a *acc) int {
	var wg sync.WaitGroup
	wg.Add(1)
	go func() {
		defer wg.Done()
		a.v = 5
	}()
	wg.Wait()
	return a.v
}

func forkNoJoinBad(a *acc) int {
	var wg sync.WaitGroup
	wg.Add(1)
	go func() {
		defer wg.Done()
		a.v = 5
	}()
	return a.v
}

// ---- 37. sync.Once: the body runs in at most one call
type lazy struct {
	once sync.Once
	v    int
}

func (l *lazy) init() {
	l.once.Do(func() { l.v = 7 })
}

func (l *lazy) initBad() {
	l.once.Do(func() { l.v = 7 })
}

// ---- 38. channel message log
type pipe struct{ ch chan int }

func (p *pipe) sendOne() {
	p.ch <- 1
}

func (p *pipe) sendOneBad() {
	p.ch <- 1
}

func sendRaw(c chan int) {
	c <- 1
}

func recvOne(c chan int) int {
	return <-c
}

func recvOneBad(c chan int) int {
	return <-c
}

// ---- 39. reader/writer lock: writing under the read lock; leaving with the lock held
type rw struct {
	mu sync.RWMutex
	n  int
}

func (r *rw) goodRead() int {
	r.mu.RLock()
	defer r.mu.RUnlock()
	return r.n
}

func (r *rw) badWrite() {
	r.mu.RLock()
	r.n = 1
	r.mu.RUnlock()
}

func (m *mon) leak() {
	m.mu.Lock()
	if m.n > 5 {
		m.n = -3
		return
	}
	m.mu.Unlock()
}

func (m *mon) doubleUnlock() {
	m.mu.Lock()
	m.mu.Unlock()
	m.mu.Unlock()
}

// ---- 40. a value read under the lock is stale after unlock / relock
func (m *mon) staleBad() bool {
	m.mu.Lock()
	a := m.n
	m.mu.Unlock()
	m.mu.Lock()
	b := m.n
	m.mu.Unlock()
	return a == b
}

// ---- 41/42. one invariant text for both ways to write a counting loop over a slice
func fillCounting(a []int) {
	for i := 0; i < len(a); i++ {
		a[i] = 1
	}
}

func fillRange(a []int) {
	for i := range a {
		a[i] = 1
	}
}

func fillRangeBad(a []int) {
	for i := range a {
		if i > 0 {
			a[i] = 1
		}
	}
}

func fillCountingBad(a []int) {
	for i := 1; i < len(a); i++ {
		a[i] = 1
	}
}
