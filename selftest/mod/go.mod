module github.com/pion/transport/v3

go 1.20
