package main

import (
	"encoding/json"
	"fmt"
	"os"
	"path/filepath"
	"sort"
	"strings"
	"time"
)

type report struct {
	o       checkOpts
	eng     *Engine
	fxs     []*FuncCtx
	obls    []*OblResult
	vacuous []*Query
	genErrs []string
	seed    int
	sv      *Solver
	loadS, genS, solveS float64
	nq      int
	t0      time.Time
	bounded []boundedResult
	explored []exploreResult
	lockTrusted []string
	nLockTypes  int
}

type KnownFinding struct {
	Property   string `json:"property"`
	Obligation string `json:"obligation"`
	What       string `json:"what"`
	Status     string `json:"status"`
}

type KnownFile struct {
	Findings []KnownFinding `json:"findings"`
	Fixed    []string       `json:"fixed"`
}

func loadKnown(verif string) KnownFile {
	var kf KnownFile
	b, err := os.ReadFile(filepath.Join(verif, "known_findings.json"))
	if err == nil {
		_ = json.Unmarshal(b, &kf)
	}
	return kf
}

type ReplayFile struct {
	Property   string   `json:"property"`
	Obligation string   `json:"obligation"`
	Kind       string   `json:"kind"`
	Clause     string   `json:"clause"`
	Position   string   `json:"position"`
	Paths      []ReplayPath `json:"failing_paths"`
	Reproduced bool     `json:"reproduced_on_real_code"`
	ReplayNote string   `json:"replay_note"`
	ReplayCmd  string   `json:"replay_cmd,omitempty"`
	ReplayOut  string   `json:"replay_output,omitempty"`
}

type ReplayPath struct {
	Trail  string `json:"path"`
	Status string `json:"solver_status"`
	Solver string `json:"solver"`
	Output string `json:"solver_output"`
	Model  map[string]string `json:"model_inputs,omitempty"`
	RawModel string `json:"raw_model,omitempty"`
	Diag []string `json:"failing_conjuncts,omitempty"`
	Candidate bool `json:"model_is_candidate_only,omitempty"`
}

func (r *report) finish() int {
	o := r.o
	id := o.property
	if id == "" {
		id = "DEV"
	}
	known := loadKnown(o.verif)
	var failed []*OblResult
	discharged := 0
	for _, ob := range r.obls {
		if ob.Status == "discharged" {
			discharged++
		} else {
			failed = append(failed, ob)
		}
	}
	exit := 0
	var lines []string
	violations := 0
	var knownHit []string
	for _, e := range r.genErrs {
		lines = append(lines, "ENGINE-ERROR: "+e)
		exit = 2
	}
	for _, q := range r.vacuous {
		lines = append(lines, fmt.Sprintf("ENGINE-ERROR: vacuous hypotheses at %s (%s): the contract assumes false", q.Obl, q.Pos))
		exit = 2
	}
	replayDir := filepath.Join(o.verif, "replays", id)
	if !o.noEvidence {
		os.RemoveAll(replayDir)
	}
	for _, ob := range failed {
		isKnown := false
		for _, k := range known.Findings {
			if k.Obligation == ob.Name && k.Status == "known" {
				// the same failing obligation is the same finding in every check that contains it
				isKnown = true
				knownHit = append(knownHit, fmt.Sprintf("KNOWN-FINDING: property=%s %s: %s", k.Property, ob.Name, k.What))
			}
		}
		if isKnown {
			continue
		}
		violations++
		rf := r.replayFile(id, ob)
		path := filepath.Join(replayDir, sanitizeFile(ob.Name)+".json")
		suffix := ""
		if !o.noEvidence {
			r.tryReplay(id, ob, rf)
			writeJSON(path, rf)
		}
		if !rf.Reproduced {
			suffix = " no-failing-input-found"
		}
		lines = append(lines, fmt.Sprintf("VIOLATION property=%s replay=%s obligation=%s%s", id, path, ob.Name, suffix))
		// the VIOLATION line must end with the marker words when there is no failing input
		if suffix != "" {
			lines[len(lines)-1] = fmt.Sprintf("VIOLATION property=%s replay=%s obligation=%s no-failing-input-found", id, path, ob.Name)
		}
		if exit == 0 {
			exit = 1
		}
	}
	// bounded stand-ins (labelled bounded; a failure is a failing input on the real code)
	var bounded []boundedResult
	if !o.noEvidence && o.property != "" {
		bounded = runBounded(o, id)
		for _, b := range bounded {
			if !b.Passed {
				violations++
				path := filepath.Join(replayDir, "bounded_"+sanitizeFile(b.Name+b.Tags)+".json")
				writeJSON(path, map[string]any{"property": id, "obligation": "bounded:" + b.Name, "kind": "bounded", "replay_cmd": b.Cmd, "replay_output": truncate(b.Out, 6000), "reproduced_on_real_code": true})
				lines = append(lines, fmt.Sprintf("VIOLATION property=%s replay=%s obligation=bounded:%s", id, path, b.Name))
				if exit == 0 {
					exit = 1
				}
			}
		}
	}
	r.bounded = bounded
	if !o.noEvidence && o.property != "" && o.tier == "thorough" {
		r.explored = runExploration(o, id, r.obls)
		for _, e := range r.explored {
			if !e.Passed {
				violations++
				path := filepath.Join(replayDir, "witness_"+sanitizeFile(e.Kit)+".json")
				writeJSON(path, map[string]any{"property": id, "obligation": "witness:" + e.Kit, "kind": "exploration", "replay_cmd": e.Cmd, "replay_output": truncate(e.Out, 6000), "reproduced_on_real_code": true})
				lines = append(lines, fmt.Sprintf("VIOLATION property=%s replay=%s obligation=witness:%s", id, path, e.Kit))
			}
		}
	}
	// a definite violation outranks an engine error elsewhere
	if violations > 0 {
		exit = 1
	}
	wall := time.Since(r.t0).Seconds()
	// evidence
	if !o.noEvidence && o.property != "" {
		r.writeEvidence(id, discharged, failed, knownHit, violations, wall, exit)
	}
	_ = knownHit
	fmt.Printf("govc: property=%s tier=%s functions=%d obligations=%d discharged=%d failed=%d queries=%d load=%.1fs gen=%.1fs solve=%.1fs wall=%.1fs\n",
		id, o.tier, len(r.fxs), len(r.obls), discharged, len(failed), r.nq, r.loadS, r.genS, r.solveS, wall)
	if o.verbose {
		for _, ob := range r.obls {
			fmt.Printf("  %-10s %-70s q=%d %.2fs %v\n", ob.Status, ob.Name, ob.Queries, ob.Seconds, ob.Solvers)
		}
	}
	for _, ob := range failed {
		fmt.Printf("  FAILED %s  (%s)  %s\n", ob.Name, ob.Pos, ob.Clause)
		for i, q := range ob.failing {
			if i >= 3 {
				break
			}
			fmt.Printf("     path %s: %s by %s\n", q.Trail, q.Status, q.Solver)
			for _, d := range q.Diag {
				fmt.Printf("        %s\n", d)
			}
		}
	}
	for _, l := range knownHit {
		fmt.Println(l)
	}
	for _, l := range lines {
		fmt.Println(l)
	}
	if exit == 0 {
		fmt.Printf("OK property=%s\n", id)
	}
	return exit
}

func sanitizeFile(s string) string {
	r := strings.NewReplacer("/", "_", "[", "_", "]", "_", " ", "_", ":", "_", "*", "_", "#", "_", "$", "_", "|", "_", "!", "_", "(", "_", ")", "_", "'", "_")
	return r.Replace(s)
}

func (r *report) replayFile(id string, ob *OblResult) *ReplayFile {
	rf := &ReplayFile{Property: id, Obligation: ob.Name, Kind: ob.Kind, Clause: ob.Clause, Position: ob.Pos,
		ReplayNote: "no concrete failing input available from the verifier for this obligation"}
	for i, q := range ob.failing {
		if i >= 4 {
			break
		}
		rp := ReplayPath{Trail: q.Trail, Status: q.Status, Solver: q.Solver, Output: truncate(q.Output, 1500), Diag: q.Diag}
		if q.Model != "" {
			rp.Model = extractInputs(q.Model)
			rp.RawModel = truncate(q.Model, 6000)
		} else if q.GroundModel != "" {
			rp.Model = extractInputs(q.GroundModel)
			rp.RawModel = truncate(q.GroundModel, 6000)
			rp.Candidate = true
		}
		rf.Paths = append(rf.Paths, rp)
	}
	return rf
}

// extractInputs pulls parameter / free-variable values out of a solver model
func extractInputs(model string) map[string]string {
	out := map[string]string{}
	lines := strings.Split(model, "\n")
	for i := 0; i < len(lines); i++ {
		l := strings.TrimSpace(lines[i])
		if strings.HasPrefix(l, "(define-fun p$") || strings.HasPrefix(l, "(define-fun fv$") {
			parts := strings.Fields(l)
			name := parts[1]
			val := ""
			if strings.HasSuffix(l, ")") && strings.Count(l, "(") == strings.Count(l, ")") {
				// single line
				idx := strings.LastIndex(l[:len(l)-1], " ")
				val = strings.TrimSuffix(l[idx+1:], ")")
				if strings.HasSuffix(l, "))") && strings.Contains(l, "(- ") {
					j := strings.LastIndex(l, "(- ")
					val = strings.TrimSuffix(l[j:], ")")
				}
			} else if i+1 < len(lines) {
				val = strings.TrimSuffix(strings.TrimSpace(lines[i+1]), ")")
			}
			out[name] = val
		}
	}
	return out
}

type Evidence struct {
	PropertyID  string         `json:"property_id"`
	Tier        string         `json:"tier"`
	Seed        int            `json:"seed"`
	Level       string         `json:"level"`
	Coverage    map[string]any `json:"coverage"`
	Assumptions []string       `json:"assumptions"`
	WallS       float64        `json:"wall_s"`
	Violations  int            `json:"violations"`
}

func (r *report) writeEvidence(id string, discharged int, failed []*OblResult, knownHit []string, violations int, wall float64, exit int) {
	trusted := map[string]bool{}
	var fns []string
	abstractions := map[string]bool{}
	inlinedAll := map[string]bool{}
	for _, fx := range r.fxs {
		fns = append(fns, strings.TrimPrefix(fx.pc.Path, modPath+"/")+":"+fx.key+" ("+map[Mode]string{ModeInt: "arith int", ModeBV: "arith bv64"}[fx.mode]+")")
		for t := range fx.trusted {
			trusted[t] = true
		}
		for a := range fx.ar.abstract {
			abstractions[a] = true
		}
		for c := range fx.inlined {
			inlinedAll[c+" (into "+fx.key+")"] = true
		}
		if fx.fc.Trusted {
			trusted["trusted (body not verified): "+fx.key] = true
		}
	}
	for a := range abstractions {
		trusted["abstracted operation (uninterpreted, range facts only): "+a] = true
	}
	var tb []string
	for t := range trusted {
		tb = append(tb, t)
	}
	sort.Strings(tb)
	tb = append(tb, r.lockTrusted...)
	if r.nLockTypes > 0 {
		tb = append(tb, "lock discipline: must-lockset data-flow analysis (sufficient, not necessary, for race freedom); fields classified config/confined/handoff rest on the stated usage assumptions; accesses through interior pointers passed to other functions are not tracked")
	}
	tb = append(tb,
		"govc itself: SSA-to-SMT translation (go/ssa NaiveForm, x/tools v0.29.0), memory model, contract parser",
		"solvers: z3 5.1.0 (z3-new), z3 4.8.12, cvc5 1.0.3 — an obligation counts as discharged when one of them answers unsat",
		"induction over histories / interleavings of critical sections (DESIGN §3.6) is a paper argument",
		"GOARCH=amd64: int and uint are 64 bit",
	)
	var samples []map[string]any
	kinds := map[string]int{}
	for _, ob := range r.obls {
		kinds[ob.Kind]++
	}
	seenKind := map[string]int{}
	for _, ob := range r.obls {
		if seenKind[ob.Kind] >= 3 || len(samples) >= 16 {
			continue
		}
		seenKind[ob.Kind]++
		samples = append(samples, map[string]any{"obligation": ob.Name, "kind": ob.Kind, "clause": ob.Clause, "at": ob.Pos, "queries": ob.Queries, "status": ob.Status, "solvers": ob.Solvers, "solver_seconds": round3(ob.Seconds)})
	}
	per := map[string]any{}
	for n, s := range r.sv.perSolver {
		per[n] = map[string]any{"runs": s.N, "seconds": round3(s.Seconds)}
	}
	var failedNames []string
	for _, f := range failed {
		failedNames = append(failedNames, f.Name)
	}
	assumptions := []string{
		"integers: Go int/uint are 64 bit; arithmetic is encoded exactly (wrap-around) over mathematical integers, or as bit-vectors in `arith bv64` functions",
		"memory: make never fails; references handed in by callers are allocated and well-typed",
		"concurrency: a data-race-free execution orders the critical sections of one mutex; guarded state is havocked at Lock and the monitor invariant is assumed there and proved at every Unlock",
		"termination is not proved",
	}
	for _, fx := range r.fxs {
		for _, a := range fx.pc.Assumptions {
			if !contains(assumptions, a) {
				assumptions = append(assumptions, a)
			}
		}
	}
	sort.Strings(fns)
	cov := map[string]any{
		"obligations":              len(r.obls) - len(knownHit),
		"discharged":               discharged,
		"checker_cmd":              fmt.Sprintf("/verif/bin/govc check --property %s --tier %s", id, r.o.tier),
		"trusted_base":             tb,
		"functions_under_contract": fns,
		"queries":                  r.nq,
		"obligations_by_kind":      kinds,
		"solver_stats":             per,
		"samples":                  samples,
		"failed":                   nonNil(failedNames),
		"known_findings":           nonNil(knownHit),
		"phase_seconds":            map[string]any{"load": round3(r.loadS), "generate": round3(r.genS), "solve": round3(r.solveS)},
		"engine_errors":            nonNil(r.genErrs),
		"vacuity_canaries":         map[string]any{"checked": countCanaries(r.fxs), "vacuous": len(r.vacuous)},
		"contract_lines":           contractLines(r.fxs),
	}
	if len(inlinedAll) > 0 {
		cov["inlined_callees_without_contract"] = sortedKeys(inlinedAll)
	}
	if len(r.bounded) > 0 {
		cov["bounded"] = r.bounded
		cov["bounded_note"] = "bounded stand-ins cover code outside govc's reach (assembly, unsafe); they are not obligations and are not counted in `discharged`"
	}
	if len(r.explored) > 0 {
		cov["exploration_beyond_proof"] = r.explored
	}
	ev := Evidence{PropertyID: id, Tier: r.o.tier, Seed: r.seed, Level: "proof", Coverage: cov, Assumptions: assumptions, WallS: round3(wall), Violations: violations}
	if err := writeJSON(filepath.Join(r.o.verif, "evidence", id+".json"), ev); err != nil {
		fmt.Fprintln(os.Stderr, "govc: cannot write evidence:", err)
	}
}

func countCanaries(fxs []*FuncCtx) int {
	n := 0
	for _, fx := range fxs {
		for _, q := range fx.queries {
			if q.Canary {
				n++
			}
		}
	}
	return n
}

func contractLines(fxs []*FuncCtx) int {
	seen := map[string]bool{}
	n := 0
	for _, fx := range fxs {
		if !seen[fx.pc.Path] {
			seen[fx.pc.Path] = true
			n += fx.pc.NLines
		}
	}
	return n
}

func round3(f float64) float64 { return float64(int(f*1000+0.5)) / 1000 }

func (r *report) tryReplay(id string, ob *OblResult, rf *ReplayFile) {
	// replay drivers are per-package Go tests under /verif/replaykit; see replay.go
	replayWithKit(r.o, id, ob, rf)
}

func cmdReplay(args []string) int {
	if len(args) < 1 {
		usage()
	}
	b, err := os.ReadFile(args[0])
	if err != nil {
		fmt.Fprintln(os.Stderr, err)
		return 2
	}
	var rf ReplayFile
	if err := json.Unmarshal(b, &rf); err != nil {
		fmt.Fprintln(os.Stderr, err)
		return 2
	}
	fmt.Printf("obligation: %s\nclause: %s\nat: %s\n", rf.Obligation, rf.Clause, rf.Position)
	if rf.ReplayCmd == "" {
		fmt.Println("no replay driver for this obligation: ", rf.ReplayNote)
		return 0
	}
	out, code := runReplayCmd(rf.ReplayCmd)
	fmt.Println(out)
	if code != 0 {
		fmt.Println("REPRODUCED: the real code violates the clause")
		return 1
	}
	fmt.Println("not reproduced")
	return 0
}

func nonNil(x []string) []string {
	if x == nil {
		return []string{}
	}
	return x
}
