package main

// Lock-discipline obligations (C19): a must-lockset data-flow analysis over the SSA of every function of the
// packages in scope.  Each access to a field classified `guarded_by mu` needs mu of the same object in the
// lockset (exclusively for writes); `immutable` fields are written only to objects allocated in the same
// function; `atomic` fields are touched only through sync/atomic.  The obligations are decided by the
// analysis itself (back end "lockset"), not by an SMT solver.

import (
	"fmt"
	"go/token"
	"go/types"
	"sort"
	"strings"

	"golang.org/x/tools/go/ssa"
)

type lockSet map[string]string // path -> "w" | "r"

func (l lockSet) clone() lockSet {
	n := lockSet{}
	for k, v := range l {
		n[k] = v
	}
	return n
}

func meet(a, b lockSet) lockSet {
	if a == nil {
		return b.clone()
	}
	if b == nil {
		return a.clone()
	}
	n := lockSet{}
	for k, v := range a {
		if w, ok := b[k]; ok {
			if v == "r" || w == "r" {
				n[k] = "r"
			} else {
				n[k] = "w"
			}
		}
	}
	return n
}

func sameLS(a, b lockSet) bool {
	if (a == nil) != (b == nil) || len(a) != len(b) {
		return false
	}
	for k, v := range a {
		if b[k] != v {
			return false
		}
	}
	return true
}

type lsAccess struct {
	Fn     string
	Type   string
	Field  string
	Write  bool
	Held   []string // locks held, relative to the accessed object when possible
	Obj    string
	Pos    string
	Fresh  bool
	Atomic bool
}

type lsFunc struct {
	fn      *ssa.Function
	key     string
	entry   lockSet
	sources map[*ssa.Alloc]ssa.Value
	callsTo map[*ssa.Function][]lockSet // translated locksets at call sites (for callee entry inference)
}

type lockAnalysis struct {
	eng      *Engine
	funcs    map[*ssa.Function]*lsFunc
	accesses []lsAccess
	pkgs     map[string]bool
}

func (la *lockAnalysis) pathOf(lf *lsFunc, v ssa.Value, depth int) string {
	if depth > 12 {
		return "?"
	}
	switch x := v.(type) {
	case *ssa.Parameter:
		return x.Name()
	case *ssa.FreeVar:
		return x.Name()
	case *ssa.Global:
		return x.Pkg.Pkg.Name() + "." + x.Name()
	case *ssa.Alloc:
		t := x.Type().Underlying().(*types.Pointer).Elem()
		if _, ok := t.Underlying().(*types.Struct); ok && !isOpaqueSync(t) {
			return fmt.Sprintf("new@%d", x.Pos())
		}
		if src, ok := lf.sources[x]; ok {
			return la.pathOf(lf, src, depth+1)
		}
		return "?" + x.Comment
	case *ssa.UnOp:
		if x.Op == token.MUL {
			switch y := x.X.(type) {
			case *ssa.Alloc:
				if src, ok := lf.sources[y]; ok {
					return la.pathOf(lf, src, depth+1)
				}
				return "?" + y.Comment
			case *ssa.FreeVar:
				return y.Name()
			case *ssa.FieldAddr:
				return la.pathOf(lf, y, depth+1)
			case *ssa.Global:
				return y.Pkg.Pkg.Name() + "." + y.Name()
			}
		}
	case *ssa.FieldAddr:
		st := x.X.Type().Underlying().(*types.Pointer).Elem().Underlying().(*types.Struct)
		return la.pathOf(lf, x.X, depth+1) + "." + st.Field(x.Field).Name()
	case *ssa.MakeInterface:
		return la.pathOf(lf, x.X, depth+1)
	case *ssa.ChangeType:
		return la.pathOf(lf, x.X, depth+1)
	case *ssa.Call:
		return fmt.Sprintf("?call@%d", x.Pos())
	}
	return "?"
}

func lockOp(cc *ssa.CallCommon) (op string) {
	f := cc.StaticCallee()
	if f == nil {
		return ""
	}
	switch f.String() {
	case "(*sync.Mutex).Lock", "(*sync.RWMutex).Lock":
		return "lock"
	case "(*sync.RWMutex).RLock":
		return "rlock"
	case "(*sync.Mutex).Unlock", "(*sync.RWMutex).Unlock", "(*sync.RWMutex).RUnlock":
		return "unlock"
	}
	return ""
}

func (la *lockAnalysis) prepare(fn *ssa.Function, key string) *lsFunc {
	lf := &lsFunc{fn: fn, key: key, sources: map[*ssa.Alloc]ssa.Value{}, callsTo: map[*ssa.Function][]lockSet{}}
	stores := map[*ssa.Alloc][]ssa.Value{}
	for _, b := range fn.Blocks {
		for _, in := range b.Instrs {
			if st, ok := in.(*ssa.Store); ok {
				if a, ok := st.Addr.(*ssa.Alloc); ok {
					stores[a] = append(stores[a], st.Val)
				}
			}
		}
	}
	for a, vs := range stores {
		if len(vs) == 1 {
			lf.sources[a] = vs[0]
		}
	}
	return lf
}

// analyse one function with the given entry lockset; records accesses when record is set.
func (la *lockAnalysis) analyse(lf *lsFunc, record bool) {
	fn := lf.fn
	if len(fn.Blocks) == 0 {
		return
	}
	in := make([]lockSet, len(fn.Blocks))
	out := make([]lockSet, len(fn.Blocks))
	in[0] = lf.entry.clone()
	if in[0] == nil {
		in[0] = lockSet{}
	}
	transfer := func(b *ssa.BasicBlock, ls lockSet, rec bool) lockSet {
		cur := ls.clone()
		for _, instr := range b.Instrs {
			switch x := instr.(type) {
			case *ssa.Call:
				la.transferCall(lf, x.Common(), cur, rec, x.Pos())
			case *ssa.Go:
				// a new goroutine starts with no locks; its body (closure) is analysed separately
			case *ssa.Defer:
				// deferred unlocks release at return: the lock stays held for the rest of the body
				if op := lockOp(x.Common()); op == "lock" || op == "rlock" {
					la.transferCall(lf, x.Common(), cur, rec, x.Pos())
				}
			case *ssa.Store:
				if rec {
					la.recordAccess(lf, x.Addr, true, cur, x.Pos())
				}
			case *ssa.UnOp:
				if x.Op == token.MUL && rec {
					la.recordAccess(lf, x.X, false, cur, x.Pos())
				}
			case *ssa.MapUpdate:
				// the map header read is recorded at the load of the field
			}
		}
		return cur
	}
	changed := true
	for iter := 0; changed && iter < 50; iter++ {
		changed = false
		for i, b := range fn.Blocks {
			if i > 0 {
				var m lockSet
				for _, p := range b.Preds {
					if out[p.Index] != nil {
						m = meet(m, out[p.Index])
					}
				}
				if m == nil {
					continue
				}
				if !sameLS(in[i], m) {
					in[i] = m
					changed = true
				}
			}
			if in[i] == nil {
				continue
			}
			o := transfer(b, in[i], false)
			if !sameLS(out[i], o) {
				out[i] = o
				changed = true
			}
		}
	}
	if record {
		for i, b := range fn.Blocks {
			if in[i] != nil {
				transfer(b, in[i], true)
			}
		}
	}
}

func (la *lockAnalysis) transferCall(lf *lsFunc, cc *ssa.CallCommon, cur lockSet, rec bool, pos token.Pos) {
	switch lockOp(cc) {
	case "lock":
		cur[la.pathOf(lf, cc.Args[0], 0)] = "w"
		return
	case "rlock":
		cur[la.pathOf(lf, cc.Args[0], 0)] = "r"
		return
	case "unlock":
		delete(cur, la.pathOf(lf, cc.Args[0], 0))
		return
	}
	// atomic accesses
	if f := cc.StaticCallee(); f != nil && f.Pkg != nil && f.Pkg.Pkg.Path() == "sync/atomic" && rec {
		if len(cc.Args) > 0 {
			if fa, ok := cc.Args[0].(*ssa.FieldAddr); ok {
				la.recordFieldAccess(lf, fa, true, cur, pos, true)
			}
			if g, ok := cc.Args[0].(*ssa.Global); ok {
				la.accesses = append(la.accesses, lsAccess{Fn: lf.key, Type: "global", Field: g.Pkg.Pkg.Name() + "." + g.Name(), Write: true, Held: heldList(cur, ""), Pos: la.eng.posOf(pos), Atomic: true})
			}
		}
		return
	}
	// record translated lockset for callee entry inference
	callee := cc.StaticCallee()
	if callee == nil {
		return
	}
	if _, ok := la.funcs[callee]; !ok {
		return
	}
	tr := lockSet{}
	params := callee.Params
	for lk, mode := range cur {
		for i, a := range cc.Args {
			if i >= len(params) {
				break
			}
			ap := la.pathOf(lf, a, 0)
			if ap == "?" || strings.HasPrefix(ap, "?") {
				continue
			}
			if lk == ap || strings.HasPrefix(lk, ap+".") {
				tr[params[i].Name()+lk[len(ap):]] = mode
			}
		}
		// closures: free variables keep their names
		if callee.Parent() != nil {
			tr[lk] = mode
		}
		// globals
		if !strings.Contains(strings.SplitN(lk, ".", 2)[0], "@") && strings.Contains(lk, ".") {
			root := strings.SplitN(lk, ".", 2)[0]
			if callee.Pkg != nil && root == callee.Pkg.Pkg.Name() {
				tr[lk] = mode
			}
		}
	}
	lf.callsTo[callee] = append(lf.callsTo[callee], tr)
}

func heldList(cur lockSet, obj string) []string {
	var out []string
	for k, m := range cur {
		name := k
		if obj != "" && strings.HasPrefix(k, obj+".") {
			name = "." + k[len(obj)+1:]
		}
		out = append(out, name+":"+m)
	}
	sort.Strings(out)
	return out
}

func (la *lockAnalysis) recordAccess(lf *lsFunc, addr ssa.Value, write bool, cur lockSet, pos token.Pos) {
	switch a := addr.(type) {
	case *ssa.FieldAddr:
		la.recordFieldAccess(lf, a, write, cur, pos, false)
	case *ssa.Global:
		if a.Pkg == nil || !la.pkgs[a.Pkg.Pkg.Path()] {
			return
		}
		if strings.HasPrefix(a.Name(), "init$") {
			return
		}
		la.accesses = append(la.accesses, lsAccess{Fn: lf.key, Type: "global", Field: a.Pkg.Pkg.Name() + "." + a.Name(), Write: write, Held: heldList(cur, ""), Pos: la.eng.posOf(pos)})
	}
}

func (la *lockAnalysis) recordFieldAccess(lf *lsFunc, fa *ssa.FieldAddr, write bool, cur lockSet, pos token.Pos, atomic bool) {
	st := fa.X.Type().Underlying().(*types.Pointer).Elem()
	nt := namedOf(st)
	if nt == nil || nt.Obj().Pkg() == nil || !la.pkgs[nt.Obj().Pkg().Path()] {
		return
	}
	fname := st.Underlying().(*types.Struct).Field(fa.Field).Name()
	obj := la.pathOf(lf, fa.X, 0)
	la.accesses = append(la.accesses, lsAccess{Fn: lf.key, Type: nt.Obj().Pkg().Name() + "." + nt.Obj().Name(), Field: fname, Write: write,
		Held: heldList(cur, obj), Obj: obj, Pos: la.eng.posOf(pos), Fresh: strings.HasPrefix(obj, "new@"), Atomic: atomic})
}

func (e *Engine) posOf(p token.Pos) string {
	if !p.IsValid() {
		return ""
	}
	ps := e.prog.Fset.Position(p)
	return fmt.Sprintf("%s:%d", strings.TrimPrefix(ps.Filename, e.repo+"/"), ps.Line)
}

// runLockAnalysis analyses all functions of the given packages.
func (e *Engine) runLockAnalysis(pkgPaths []string) *lockAnalysis {
	la := &lockAnalysis{eng: e, funcs: map[*ssa.Function]*lsFunc{}, pkgs: map[string]bool{}}
	for _, p := range pkgPaths {
		la.pkgs[p] = true
	}
	var keys []string
	for k := range e.funcs {
		keys = append(keys, k)
	}
	sort.Strings(keys)
	for _, k := range keys {
		fn := e.funcs[k]
		path := k[:strings.Index(k, ":")]
		if !la.pkgs[path] || fn.Synthetic != "" {
			continue
		}
		lf := la.prepare(fn, strings.TrimPrefix(path, modPath+"/")+"."+k[strings.Index(k, ":")+1:])
		la.funcs[fn] = lf
	}
	// which functions may be entered from outside / as values: entry lockset is empty
	open := map[*ssa.Function]bool{}
	for fn := range la.funcs {
		if fn.Parent() == nil && (fn.Object() == nil || fn.Object().Exported()) {
			open[fn] = true
		}
	}
	for fn := range la.funcs {
		for _, b := range fn.Blocks {
			for _, in := range b.Instrs {
				// functions used as values (callbacks, goroutines) are open
				var ops []*ssa.Value
				for _, op := range in.Operands(ops) {
					if f, ok := (*op).(*ssa.Function); ok {
						if c, isCall := in.(ssa.CallInstruction); isCall && c.Common().Value == f {
							if _, isGo := in.(*ssa.Go); !isGo {
								continue
							}
						}
						open[f] = true
					}
					if mc, ok := (*op).(*ssa.MakeClosure); ok {
						_ = mc
					}
				}
				if mc, ok := in.(*ssa.MakeClosure); ok {
					f := mc.Fn.(*ssa.Function)
					// a closure that is only called / deferred directly in its parent keeps the parent's locks
					direct := true
					for _, ref := range *mc.Referrers() {
						switch r := ref.(type) {
						case *ssa.Call:
							if r.Call.Value != mc {
								direct = false
							}
						case *ssa.Defer:
							if r.Call.Value != mc {
								direct = false
							}
						case *ssa.Store, *ssa.DebugRef:
							if _, isStore := ref.(*ssa.Store); isStore {
								direct = false
							}
						default:
							direct = false
						}
					}
					if !direct {
						open[f] = true
					}
				}
			}
		}
	}
	// locked contracts give entry locksets
	for fn, lf := range la.funcs {
		if fc := e.contractOf(fn); fc != nil && len(fc.Locked) > 0 {
			lf.entry = lockSet{}
			for _, lk := range fc.Locked {
				lf.entry[lk.String()] = "w"
			}
			open[fn] = true // fixed, do not infer
		}
	}
	// fixpoint: entry of closed functions = meet over call sites
	for iter := 0; iter < 6; iter++ {
		for _, lf := range la.funcs {
			lf.callsTo = map[*ssa.Function][]lockSet{}
			la.analyse(lf, false)
		}
		changed := false
		incoming := map[*ssa.Function][]lockSet{}
		for _, lf := range la.funcs {
			for callee, sets := range lf.callsTo {
				incoming[callee] = append(incoming[callee], sets...)
			}
		}
		for fn, lf := range la.funcs {
			if open[fn] {
				continue
			}
			var m lockSet
			for _, s := range incoming[fn] {
				m = meet(m, s)
			}
			if m == nil {
				m = lockSet{}
			}
			if !sameLS(lf.entry, m) {
				lf.entry = m
				changed = true
			}
		}
		if !changed {
			break
		}
	}
	var fns []*lsFunc
	for _, lf := range la.funcs {
		fns = append(fns, lf)
	}
	sort.Slice(fns, func(i, j int) bool { return fns[i].key < fns[j].key })
	for _, lf := range fns {
		la.analyse(lf, true)
	}
	return la
}

func cmdLockset(args []string) int {
	eng, err := loadEngine("/repo", []string{"./..."}, "verif")
	if err != nil {
		fmt.Println(err)
		return 2
	}
	var pk []string
	for _, a := range args {
		pk = append(pk, modPath+"/"+a)
	}
	la := eng.runLockAnalysis(pk)
	type key struct{ t, f string }
	group := map[key][]lsAccess{}
	for _, a := range la.accesses {
		if a.Fresh {
			continue
		}
		group[key{a.Type, a.Field}] = append(group[key{a.Type, a.Field}], a)
	}
	var ks []key
	for k := range group {
		ks = append(ks, k)
	}
	sort.Slice(ks, func(i, j int) bool { return ks[i].t+ks[i].f < ks[j].t+ks[j].f })
	for _, k := range ks {
		fmt.Printf("%s.%s\n", k.t, k.f)
		seen := map[string]bool{}
		for _, a := range group[k] {
			rw := "R"
			if a.Write {
				rw = "W"
			}
			if a.Atomic {
				rw = "A"
			}
			line := fmt.Sprintf("   %s %-45s held=%v obj=%s", rw, a.Fn, a.Held, a.Obj)
			if !seen[line] {
				seen[line] = true
				fmt.Println(line)
			}
		}
	}
	return 0
}

var lockClasses = map[string]bool{"guarded_by": true, "guarded_by_held": true, "immutable": true, "config": true, "confined": true, "atomic": true,
	"channel": true, "handoff": true, "nonnilchan": true, "signal": true, "openchan": true, "openchan+nonnil": true, "owned": false}

func (e *Engine) lockDecl(pkgPath, typ, field string) (cls, arg string, found bool) {
	pc := e.contracts[pkgPath]
	if pc == nil {
		return "", "", false
	}
	if md := pc.Monitors[typ]; md != nil {
		for _, g := range md.Guarded {
			if g == field {
				return "guarded_by", md.Mutex, true
			}
		}
	}
	for _, fd := range pc.Fields {
		if fd.Type == typ && fd.Name == field && lockClasses[fd.Class] {
			return fd.Class, fd.Arg, true
		}
	}
	return "", "", false
}

// lockObligations: one obligation per (function, type.field, read/write); status by the analysis.
func (e *Engine) lockObligations(id string) (obls []*OblResult, trusted []string, nTypes int) {
	scope := map[string]map[string]bool{} // pkg path -> type names
	var pkgs []string
	for _, path := range sortedKeys(e.contracts) {
		pc := e.contracts[path]
		if ts := pc.Locksets[id]; len(ts) > 0 {
			scope[path] = map[string]bool{}
			for _, t := range ts {
				scope[path][t] = true
				nTypes++
			}
			pkgs = append(pkgs, path)
		}
	}
	if len(pkgs) == 0 {
		return nil, nil, 0
	}
	la := e.runLockAnalysis(pkgs)
	byName := map[string]*OblResult{}
	trustSet := map[string]bool{}
	fail := func(name, clause, pos string) {
		r := byName[name]
		if r == nil {
			r = &OblResult{Name: name, Kind: "held", Status: "discharged", Solvers: []string{"lockset"}, Clause: clause, Pos: pos}
			byName[name] = r
		}
		r.Status = "failed"
		r.Clause = clause
		r.Pos = pos
		r.Queries++
	}
	pass := func(name, clause, pos string) {
		r := byName[name]
		if r == nil {
			r = &OblResult{Name: name, Kind: "held", Status: "discharged", Solvers: []string{"lockset"}, Clause: clause, Pos: pos}
			byName[name] = r
		}
		r.Queries++
	}
	pkgByName := map[string]string{}
	for _, p := range pkgs {
		pkgByName[e.typesPkg(p).Name()] = p
	}
	// globals written outside init need a classification
	written := map[string]bool{}
	for _, a := range la.accesses {
		if a.Type == "global" && a.Write && !a.Atomic {
			written[a.Field] = true
		}
	}
	for _, a := range la.accesses {
		if a.Fresh {
			continue
		}
		rw := "read"
		if a.Write {
			rw = "write"
		}
		if a.Type == "global" {
			parts := strings.SplitN(a.Field, ".", 2)
			path := pkgByName[parts[0]]
			if path == "" {
				continue
			}
			cls, _, ok := e.lockDecl(path, "global", parts[1])
			name := fmt.Sprintf("%s/held[global %s]@%s", a.Fn, parts[1], rw)
			switch {
			case ok && cls == "atomic":
				if a.Atomic {
					pass(name, "atomic access to "+a.Field, a.Pos)
				} else {
					fail(name, "plain "+rw+" of package variable "+a.Field+" declared atomic", a.Pos)
				}
			case !written[a.Field] && !a.Atomic:
				// never written after init: read-only, no obligation
			default:
				fail(name, rw+" of package variable "+a.Field+" that is written without synchronisation (no classification)", a.Pos)
			}
			continue
		}
		tparts := strings.SplitN(a.Type, ".", 2)
		path := pkgByName[tparts[0]]
		if path == "" || !scope[path][tparts[1]] {
			continue
		}
		cls, arg, ok := e.lockDecl(path, tparts[1], a.Field)
		name := fmt.Sprintf("%s/held[%s.%s]@%s", a.Fn, tparts[1], a.Field, rw)
		if !ok {
			fail(name, "field "+a.Type+"."+a.Field+" has no lock-discipline classification", a.Pos)
			continue
		}
		heldRel := map[string]string{}
		anyHeld := map[string]string{}
		for _, h := range a.Held {
			i := strings.LastIndex(h, ":")
			heldRel[h[:i]] = h[i+1:]
			anyHeld[h[:i]] = h[i+1:]
		}
		fnShort := a.Fn[strings.LastIndex(a.Fn, ".")+1:]
		switch cls {
		case "guarded_by":
			mode := heldRel["."+arg]
			if mode == "w" || (mode == "r" && !a.Write) {
				pass(name, rw+" of "+a.Field+" with "+arg+" held", a.Pos)
			} else {
				fail(name, rw+" of "+a.Type+"."+a.Field+" without holding "+arg+" of the same object (held: "+strings.Join(a.Held, ",")+")", a.Pos)
			}
		case "guarded_by_held":
			okk := false
			for h, mode := range anyHeld {
				if strings.HasSuffix(h, arg) && (mode == "w" || !a.Write) {
					okk = true
				}
			}
			if okk {
				pass(name, rw+" of "+a.Field+" with the owner's lock held", a.Pos)
			} else {
				fail(name, rw+" of "+a.Type+"."+a.Field+" without the owner's lock *"+arg+" (held: "+strings.Join(a.Held, ",")+")", a.Pos)
			}
		case "immutable", "nonnilchan", "signal", "channel", "openchan", "openchan+nonnil":
			if a.Write {
				fail(name, "write to immutable field "+a.Type+"."+a.Field+" of an object not allocated in this function", a.Pos)
			} else {
				pass(name, "read of immutable field", a.Pos)
			}
		case "atomic":
			if a.Atomic {
				pass(name, "atomic access", a.Pos)
			} else {
				fail(name, "plain "+rw+" of atomic field "+a.Type+"."+a.Field, a.Pos)
			}
		case "config":
			allowed := false
			for _, f := range strings.Split(arg, ",") {
				if strings.TrimSpace(f) == fnShort {
					allowed = true
				}
			}
			if a.Write && !allowed {
				fail(name, "write to configuration field "+a.Type+"."+a.Field+" outside its set-up functions ("+arg+")", a.Pos)
			} else {
				pass(name, rw+" of configuration field", a.Pos)
				trustSet["configuration field "+a.Type+"."+a.Field+": written only by "+arg+" before the object is used concurrently (documented set-up order, not proved)"] = true
			}
		case "confined":
			allowed := false
			for _, f := range strings.Split(arg, ",") {
				if strings.TrimSpace(f) == fnShort {
					allowed = true
				}
			}
			if !allowed {
				fail(name, rw+" of goroutine-confined field "+a.Type+"."+a.Field+" outside "+arg, a.Pos)
			} else {
				pass(name, rw+" of goroutine-confined field", a.Pos)
				trustSet["field "+a.Type+"."+a.Field+" is confined to the goroutine running "+arg+" (that only one goroutine runs them is not proved)"] = true
			}
		case "handoff":
			pass(name, "handoff", a.Pos)
			trustSet["field "+a.Type+"."+a.Field+": ordered by a channel / WaitGroup hand-off (trusted)"] = true
		}
	}
	var names []string
	for n := range byName {
		names = append(names, n)
	}
	sort.Strings(names)
	for _, n := range names {
		obls = append(obls, byName[n])
	}
	for t := range trustSet {
		trusted = append(trusted, t)
	}
	sort.Strings(trusted)
	return
}
