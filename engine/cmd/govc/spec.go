package main

// Spec expression language: Go expressions extended with ==>, <==>, forall/exists,
// old(), atlock(), ite(), `in`.  Hand-written Pratt sparser.

import (
	"fmt"
	"strings"
	"unicode"
)

type Expr interface{ String() string }

type (
	EIdent struct{ Name string }
	EInt   struct{ V string } // decimal string (big)
	EBool  struct{ V bool }
	EStr   struct{ V string }
	ENil   struct{}
	ESel   struct {
		X    Expr
		Name string
	}
	EIndex struct{ X, I Expr }
	ESlice struct{ X, Lo, Hi Expr }
	ECall  struct {
		Fun  Expr
		Args []Expr
	}
	EUnary struct {
		Op string
		X  Expr
	}
	EBinary struct {
		Op   string
		X, Y Expr
	}
	EQuant struct {
		Forall   bool
		Vars     []Binder
		Triggers [][]Expr
		Body     Expr
	}
	EStar struct{ X Expr } // *p  (unused mostly)
)

type Binder struct {
	Name string
	Type string
}

func (e *EIdent) String() string { return e.Name }
func (e *EInt) String() string   { return e.V }
func (e *EBool) String() string  { return fmt.Sprint(e.V) }
func (e *EStr) String() string   { return fmt.Sprintf("%q", e.V) }
func (e *ENil) String() string   { return "nil" }
func (e *ESel) String() string   { return e.X.String() + "." + e.Name }
func (e *EIndex) String() string { return e.X.String() + "[" + e.I.String() + "]" }
func (e *ESlice) String() string {
	lo, hi := "", ""
	if e.Lo != nil {
		lo = e.Lo.String()
	}
	if e.Hi != nil {
		hi = e.Hi.String()
	}
	return e.X.String() + "[" + lo + ":" + hi + "]"
}
func (e *ECall) String() string {
	var a []string
	for _, x := range e.Args {
		a = append(a, x.String())
	}
	return e.Fun.String() + "(" + strings.Join(a, ", ") + ")"
}
func (e *EUnary) String() string  { return e.Op + e.X.String() }
func (e *EBinary) String() string { return "(" + e.X.String() + " " + e.Op + " " + e.Y.String() + ")" }
func (e *EQuant) String() string {
	q := "exists"
	if e.Forall {
		q = "forall"
	}
	var v []string
	for _, b := range e.Vars {
		v = append(v, b.Name+" "+b.Type)
	}
	return "(" + q + " " + strings.Join(v, ", ") + " :: " + e.Body.String() + ")"
}
func (e *EStar) String() string { return "*" + e.X.String() }

// ---------------------------------------------------------------- lexer

type tok struct {
	kind string // id int str op eof
	s    string
	pos  int
}

type lexer struct {
	src  string
	toks []tok
	i    int
}

var ops3 = []string{"<==>", "==>", "&&", "||", "==", "!=", "<=", ">=", "<<", ">>", "&^", "::", "..", "+=", "-=", "++", "--"}

func lex(src string) ([]tok, error) {
	var out []tok
	i := 0
	for i < len(src) {
		c := src[i]
		if c == ' ' || c == '\t' || c == '\n' || c == '\r' {
			i++
			continue
		}
		if unicode.IsLetter(rune(c)) || c == '_' {
			j := i
			for j < len(src) && (unicode.IsLetter(rune(src[j])) || unicode.IsDigit(rune(src[j])) || src[j] == '_' || src[j] == '$') {
				j++
			}
			out = append(out, tok{"id", src[i:j], i})
			i = j
			continue
		}
		if unicode.IsDigit(rune(c)) {
			j := i
			for j < len(src) && (unicode.IsDigit(rune(src[j])) || unicode.IsLetter(rune(src[j])) || src[j] == '_') {
				j++
			}
			out = append(out, tok{"int", src[i:j], i})
			i = j
			continue
		}
		if c == '"' {
			j := i + 1
			for j < len(src) && src[j] != '"' {
				if src[j] == '\\' {
					j++
				}
				j++
			}
			if j >= len(src) {
				return nil, fmt.Errorf("unterminated string at %d", i)
			}
			out = append(out, tok{"str", src[i+1 : j], i})
			i = j + 1
			continue
		}
		matched := false
		for _, op := range ops3 {
			if strings.HasPrefix(src[i:], op) {
				out = append(out, tok{"op", op, i})
				i += len(op)
				matched = true
				break
			}
		}
		if matched {
			continue
		}
		out = append(out, tok{"op", string(c), i})
		i++
	}
	out = append(out, tok{"eof", "", len(src)})
	return out, nil
}

type sparser struct {
	toks []tok
	i    int
	src  string
}

func (p *sparser) peek() tok { return p.toks[p.i] }
func (p *sparser) next() tok { t := p.toks[p.i]; p.i++; return t }
func (p *sparser) isOp(s string) bool {
	t := p.peek()
	return t.kind == "op" && t.s == s
}
func (p *sparser) isId(s string) bool {
	t := p.peek()
	return t.kind == "id" && t.s == s
}
func (p *sparser) expectOp(s string) {
	if !p.isOp(s) {
		panic(fmt.Sprintf("spec parse: expected %q at %d in %q (got %q)", s, p.peek().pos, p.src, p.peek().s))
	}
	p.i++
}

func ParseExpr(src string) (e Expr, err error) {
	defer func() {
		if r := recover(); r != nil {
			err = fmt.Errorf("%v", r)
		}
	}()
	toks, err := lex(src)
	if err != nil {
		return nil, err
	}
	p := &sparser{toks: toks, src: src}
	e = p.expr()
	if p.peek().kind != "eof" {
		panic(fmt.Sprintf("spec parse: trailing input at %d in %q", p.peek().pos, src))
	}
	return e, nil
}

func (p *sparser) expr() Expr {
	if p.isId("forall") || p.isId("exists") {
		return p.quant()
	}
	return p.iff()
}

// type syntax inside binders: [*]ident[.ident] | []T | map[K]V | set[T]
func (p *sparser) typeStr() string {
	var sb strings.Builder
	for {
		if p.isOp("*") {
			p.next()
			sb.WriteString("*")
			continue
		}
		if p.isOp("[") {
			p.next()
			p.expectOp("]")
			sb.WriteString("[]")
			continue
		}
		break
	}
	t := p.next()
	if t.kind != "id" {
		panic(fmt.Sprintf("spec parse: expected type at %d in %q", t.pos, p.src))
	}
	sb.WriteString(t.s)
	if (t.s == "map" || t.s == "set" || t.s == "seq") && p.isOp("[") {
		p.next()
		sb.WriteString("[" + p.typeStr() + "]")
		p.expectOp("]")
		if t.s == "map" {
			sb.WriteString(p.typeStr())
		}
		return sb.String()
	}
	if p.isOp(".") {
		p.next()
		sb.WriteString("." + p.next().s)
	}
	return sb.String()
}

func (p *sparser) quant() Expr {
	q := &EQuant{Forall: p.next().s == "forall"}
	for {
		var names []string
		names = append(names, p.next().s)
		for p.isOp(",") {
			p.next()
			names = append(names, p.next().s)
		}
		ty := p.typeStr()
		for _, n := range names {
			q.Vars = append(q.Vars, Binder{n, ty})
		}
		if p.isOp(",") {
			p.next()
			continue
		}
		break
	}
	p.expectOp("::")
	for p.isOp("{") {
		p.next()
		var tr []Expr
		tr = append(tr, p.iff())
		for p.isOp(",") {
			p.next()
			tr = append(tr, p.iff())
		}
		p.expectOp("}")
		q.Triggers = append(q.Triggers, tr)
	}
	q.Body = p.expr()
	return q
}

func (p *sparser) iff() Expr {
	x := p.implies()
	for p.isOp("<==>") {
		p.next()
		y := p.implies()
		x = &EBinary{"<==>", x, y}
	}
	return x
}

func (p *sparser) implies() Expr {
	x := p.or()
	if p.isOp("==>") {
		p.next()
		var y Expr
		if p.isId("forall") || p.isId("exists") {
			y = p.quant()
		} else {
			y = p.implies()
		}
		return &EBinary{"==>", x, y}
	}
	return x
}

func (p *sparser) or() Expr {
	x := p.and()
	for p.isOp("||") {
		p.next()
		x = &EBinary{"||", x, p.and()}
	}
	return x
}

func (p *sparser) and() Expr {
	x := p.cmp()
	for p.isOp("&&") {
		p.next()
		var y Expr
		if p.isId("forall") || p.isId("exists") {
			y = p.quant()
		} else {
			y = p.cmp()
		}
		x = &EBinary{"&&", x, y}
	}
	return x
}

func (p *sparser) cmp() Expr {
	x := p.add()
	for {
		t := p.peek()
		if t.kind == "op" && (t.s == "==" || t.s == "!=" || t.s == "<" || t.s == "<=" || t.s == ">" || t.s == ">=") {
			p.next()
			x = &EBinary{t.s, x, p.add()}
			continue
		}
		if t.kind == "id" && t.s == "in" {
			p.next()
			x = &EBinary{"in", x, p.add()}
			continue
		}
		return x
	}
}

func (p *sparser) add() Expr {
	x := p.mul()
	for {
		t := p.peek()
		if t.kind == "op" && (t.s == "+" || t.s == "-" || t.s == "|" || t.s == "^") {
			p.next()
			x = &EBinary{t.s, x, p.mul()}
			continue
		}
		return x
	}
}

func (p *sparser) mul() Expr {
	x := p.unary()
	for {
		t := p.peek()
		if t.kind == "op" && (t.s == "*" || t.s == "/" || t.s == "%" || t.s == "<<" || t.s == ">>" || t.s == "&" || t.s == "&^") {
			p.next()
			x = &EBinary{t.s, x, p.unary()}
			continue
		}
		return x
	}
}

func (p *sparser) unary() Expr {
	t := p.peek()
	if t.kind == "op" && (t.s == "!" || t.s == "-" || t.s == "^") {
		p.next()
		return &EUnary{t.s, p.unary()}
	}
	if t.kind == "op" && t.s == "*" {
		p.next()
		return &EStar{p.unary()}
	}
	return p.postfix()
}

func (p *sparser) postfix() Expr {
	x := p.primary()
	for {
		switch {
		case p.isOp("."):
			p.next()
			n := p.next()
			x = &ESel{x, n.s}
		case p.isOp("["):
			p.next()
			if p.isOp(":") {
				p.next()
				var hi Expr
				if !p.isOp("]") {
					hi = p.expr()
				}
				p.expectOp("]")
				x = &ESlice{x, nil, hi}
				continue
			}
			i := p.expr()
			if p.isOp(":") {
				p.next()
				var hi Expr
				if !p.isOp("]") {
					hi = p.expr()
				}
				p.expectOp("]")
				x = &ESlice{x, i, hi}
				continue
			}
			p.expectOp("]")
			x = &EIndex{x, i}
		case p.isOp("("):
			p.next()
			var args []Expr
			for !p.isOp(")") {
				args = append(args, p.expr())
				if p.isOp(",") {
					p.next()
				}
			}
			p.expectOp(")")
			x = &ECall{x, args}
		default:
			return x
		}
	}
}

func (p *sparser) primary() Expr {
	t := p.next()
	switch t.kind {
	case "id":
		switch t.s {
		case "true":
			return &EBool{true}
		case "false":
			return &EBool{false}
		case "nil":
			return &ENil{}
		}
		return &EIdent{t.s}
	case "int":
		return &EInt{parseIntLit(t.s)}
	case "str":
		return &EStr{t.s}
	case "op":
		if t.s == "(" {
			// parenthesised type for conversions like (*T)(x) is not supported
			e := p.expr()
			p.expectOp(")")
			return e
		}
	}
	panic(fmt.Sprintf("spec parse: unexpected %q at %d in %q", t.s, t.pos, p.src))
}

func parseIntLit(s string) string {
	s = strings.ReplaceAll(s, "_", "")
	var v bigInt
	if _, ok := v.SetString(s, 0); !ok {
		panic("bad int literal " + s)
	}
	return v.String()
}

// ---------------------------------------------------------------- ghost statements
// stmt := lhs '=' expr | lhs '+=' expr | lhs '++' | 'forall' x 'in' '[' lo ',' hi ')' ':' m '[' x ']' '=' expr
type GhostStmt struct {
	Assume  Expr // `assume e`: a trusted fact about the environment (listed in the trusted base)
	Assert  Expr // `assert [name] e`: an obligation at this point
	AssertName string
	Guard   Expr // optional: `when cond`
	LHS     Expr
	RHS     Expr
	BulkVar string // for bulk updates
	Lo, Hi  Expr
}

func ParseGhostStmts(src string) (out []GhostStmt, err error) {
	defer func() {
		if r := recover(); r != nil {
			err = fmt.Errorf("%v", r)
		}
	}()
	for _, part := range splitTop(src, ';') {
		part = strings.TrimSpace(part)
		if part == "" {
			continue
		}
		toks, e := lex(part)
		if e != nil {
			return nil, e
		}
		p := &sparser{toks: toks, src: part}
		var g GhostStmt
		if p.isId("assume") {
			p.next()
			g.Assume = p.expr()
			if p.peek().kind != "eof" {
				panic(fmt.Sprintf("ghost assume: trailing input in %q", part))
			}
			out = append(out, g)
			continue
		}
		if p.isId("assert") {
			p.next()
			if p.peek().kind == "op" && p.peek().s == "[" {
				p.next()
				g.AssertName = p.next().s
				p.expectOp("]")
			}
			g.Assert = p.expr()
			if p.peek().kind != "eof" {
				panic(fmt.Sprintf("ghost assert: trailing input in %q", part))
			}
			out = append(out, g)
			continue
		}
		if p.isId("forall") {
			p.next()
			g.BulkVar = p.next().s
			if !p.isId("in") {
				panic("ghost bulk: expected in")
			}
			p.next()
			p.expectOp("[")
			g.Lo = p.expr()
			p.expectOp(",")
			g.Hi = p.expr()
			p.expectOp(")")
			p.expectOp(":")
		}
		g.LHS = p.postfix()
		switch {
		case p.isOp("="):
			p.next()
			g.RHS = p.expr()
		case p.isOp("+="):
			p.next()
			g.RHS = &EBinary{"+", g.LHS, p.expr()}
		case p.isOp("-="):
			p.next()
			g.RHS = &EBinary{"-", g.LHS, p.expr()}
		case p.isOp("++"):
			p.next()
			g.RHS = &EBinary{"+", g.LHS, &EInt{"1"}}
		case p.isOp("--"):
			p.next()
			g.RHS = &EBinary{"-", g.LHS, &EInt{"1"}}
		default:
			panic(fmt.Sprintf("ghost stmt: expected assignment in %q", part))
		}
		if p.peek().kind != "eof" {
			panic(fmt.Sprintf("ghost stmt: trailing input in %q", part))
		}
		out = append(out, g)
	}
	return out, nil
}

// splitTop splits on sep at bracket depth 0.
func splitTop(s string, sep byte) []string {
	var out []string
	depth := 0
	last := 0
	inStr := false
	for i := 0; i < len(s); i++ {
		c := s[i]
		if inStr {
			if c == '\\' {
				i++
			} else if c == '"' {
				inStr = false
			}
			continue
		}
		switch c {
		case '"':
			inStr = true
		case '(', '[', '{':
			depth++
		case ')', ']', '}':
			depth--
		default:
			if c == sep && depth == 0 {
				out = append(out, s[last:i])
				last = i + 1
			}
		}
	}
	out = append(out, s[last:])
	return out
}
