package main

import (
	"fmt"
	"go/token"
	"go/types"

	"golang.org/x/tools/go/ssa"
)

var (
	chLen    = HeapKey{"CH$len", "(Array Int Int)"}
	chCap    = HeapKey{"CH$cap", "(Array Int Int)"}
	chClosed = HeapKey{"CH$closed", "(Array Int Bool)"}
)

var (
	chSentN    = HeapKey{"CH$sentN", "(Array Int Int)"}
	chRecvN    = HeapKey{"CH$recvN", "(Array Int Int)"}
	chLastSend = HeapKey{"CH$lastSend", "Int"}
	chLastRecv = HeapKey{"CH$lastRecv", "Int"}
	chLastOn   = HeapKey{"CH$lastSendOn", "(Array Int Int)"}
)

// Message log of a channel (trusted FIFO model): CH$msg$T[ch][k] is the k-th value ever sent on ch, sentN / recvN count
// completed sends / receives.  Other goroutines only make the counters grow; entries of the log are never rewritten.
func chMsgKey(et types.Type, c comp) HeapKey {
	return HeapKey{"CH$msg$" + sanitize(typeStr(et)) + c.suffix, "(Array Int (Array Int " + c.sort + "))"}
}

func (fx *FuncCtx) chanLogSend(st *State, ch string, et types.Type, v Val) {
	if len(v.C) == 0 {
		return
	}
	cs := fx.mode.comps(et)
	if len(cs) != len(v.C) {
		return
	}
	sn := fx.heapGet(st.heap, chSentN)
	n := sx("select", sn, ch)
	st.assume(sx(">=", n, "0"))
	for i, c := range cs {
		k := chMsgKey(et, c)
		cur := fx.heapGet(st.heap, k)
		fx.heapSet(st, k, sx("store", cur, ch, sx("store", sx("select", cur, ch), n, v.C[i])))
	}
	fx.heapSet(st, chLastSend, n)
	fx.heapSet(st, chLastOn, sx("store", fx.heapGet(st.heap, chLastOn), ch, n))
	fx.heapSet(st, chSentN, sx("store", sn, ch, sx("+", n, "1")))
	fx.trusted["channel message log: a channel delivers the values sent on it in the order of the sends (FIFO), each once"] = true
}

// chanLogRecv constrains the received value v (when ok) to be the next unreceived message of the log.
func (fx *FuncCtx) chanLogRecv(st *State, ch string, et types.Type, v Val, ok string) {
	cs := fx.mode.comps(et)
	if len(v.C) == 0 || len(cs) != len(v.C) {
		return
	}
	rn := fx.heapGet(st.heap, chRecvN)
	n := sx("select", rn, ch)
	st.assume(sx(">=", n, "0"))
	st.assume(implies(ok, sx("<", n, sx("select", fx.heapGet(st.heap, chSentN), ch))))
	for i, c := range cs {
		k := chMsgKey(et, c)
		st.assume(implies(ok, eq(v.C[i], sx("select", sx("select", fx.heapGet(st.heap, k), ch), n))))
	}
	fx.heapSet(st, chLastRecv, n)
	fx.heapSet(st, chRecvN, sx("store", rn, ch, ite(ok, sx("+", n, "1"), n)))
}

// other goroutines may change channel state at any time, but closed channels stay closed.
// While a lock is held, channel state observed by this function is treated as stable (trusted: channels whose
// state is tied to a monitor invariant are only closed / drained under that monitor's lock).
func (fx *FuncCtx) chanEnvStep(st *State) {
	if len(st.held) > 0 {
		return
	}
	fx.chanHavoc(st)
}

func (fx *FuncCtx) chanHavoc(st *State) {
	oldClosed := fx.heapGet(st.heap, chClosed)
	nc := fx.decls.fresh("CH$closed", chClosed.Sort)
	fx.decls.n++
	q := fmt.Sprintf("q$ch!%d", fx.decls.n)
	st.assume("(forall ((" + q + " Int)) (! " + implies(sx("select", oldClosed, q), sx("select", nc, q)) + " :pattern (" + sx("select", nc, q) + ")))")
	fx.keySorts[chClosed.Key] = chClosed.Sort
	st.heap[chClosed.Key] = nc
	nl := fx.decls.fresh("CH$len", chLen.Sort)
	fx.keySorts[chLen.Key] = chLen.Sort
	st.heap[chLen.Key] = nl
	for _, ck := range []HeapKey{chSentN, chRecvN} {
		if _, used := st.heap[ck.Key]; !used {
			continue
		}
		oldN := fx.heapGet(st.heap, ck)
		nn := fx.decls.fresh(ck.Key, ck.Sort)
		fx.decls.n++
		qq := fmt.Sprintf("q$ch!%d", fx.decls.n)
		st.assume("(forall ((" + qq + " Int)) (! " + sx(">=", sx("select", nn, qq), sx("select", oldN, qq)) + " :pattern (" + sx("select", nn, qq) + ")))")
		fx.keySorts[ck.Key] = ck.Sort
		st.heap[ck.Key] = nn
	}
	fx.trusted["channel model: buffered length, capacity, closed flag; closed is monotone; other goroutines may change length/closed whenever no lock is held"] = true
}

func (fx *FuncCtx) chLenOf(st *State, ch string) string {
	l := sx("select", fx.heapGet(st.heap, chLen), ch)
	c := sx("select", fx.heapGet(st.heap, chCap), ch)
	st.assume(and(sx("<=", "0", l), sx("<=", l, c)))
	return l
}

func (fx *FuncCtx) selectModel(st *State, in *ssa.Select) {
	fx.chanEnvStep(st)
	n := len(in.States)
	type ci struct {
		ch  string
		val Val
	}
	var cases []ci
	for _, s := range in.States {
		c := ci{ch: fx.val(st, s.Chan).s()}
		if s.Send != nil {
			c.val = fx.val(st, s.Send)
		}
		cases = append(cases, c)
	}
	// result tuple type: (index int, recvOk bool, r0, r1, ...)
	tup := in.Type().(*types.Tuple)
	mkResult := func(s *State, idx int) {
		res := Val{T: in.Type()}
		res.Tup = append(res.Tup, Val{T: tup.At(0).Type(), C: []string{fx.mode.num(bigI(int64(idx)), fx.mode.intSort(tup.At(0).Type()))}})
		ok := fx.decls.fresh("recvok", "Bool")
		res.Tup = append(res.Tup, Val{T: BoolT, C: []string{ok}})
		ri := 2
		for j, sc := range in.States {
			if sc.Dir == types.RecvOnly {
				v := fx.freshVal("recv", tup.At(ri).Type())
				fx.assumeTyping(s, v)
				if j == idx {
					ch := cases[j].ch
					if len(v.C) >= 1 {
						fx.decls.declare("CH$nonnil", "(Array Int Bool)")
						s.assume(implies(and(sx("select", "CH$nonnil", ch), ok), not(eq(v.C[0], "0"))))
						// a channel that is never closed delivers only sent values
						fx.decls.declare("CH$open", "(Array Int Bool)")
						s.assume(implies(sx("select", "CH$open", ch), ok))
					}
					l := fx.chLenOf(s, ch)
					closed := sx("select", fx.heapGet(s.heap, chClosed), ch)
					fx.decls.declare("CH$signal", "(Array Int Bool)")
					s.assume(implies(sx("select", "CH$signal", ch), closed))
					if signalOnly(sc.Chan.Type()) {
						s.assume(closed)
						fx.trusted["signal channels: a completed receive from a `<-chan struct{}` (Done()-style channel, never sent to) means the channel is closed"] = true
					}
					s.assume(implies(and(closed, eq(l, "0")), not(ok)))
					s.assume(implies(not(closed), ok))
					fx.heapSet(s, chLen, sx("store", fx.heapGet(s.heap, chLen), ch, ite(sx(">", l, "0"), sx("-", l, "1"), l)))
					fx.chanLogRecv(s, ch, sc.Chan.Type().Underlying().(*types.Chan).Elem(), v, ok)
					fx.timerRecv(s, ch, false, in.Pos())
				}
				res.Tup = append(res.Tup, v)
				ri++
			}
		}
		s.regs[in] = res
	}
	// fork: one path per case (+ default)
	type alt struct {
		st  *State
		idx int
	}
	var alts []alt
	for i := 0; i < n; i++ {
		s := st.clone()
		s.trail = append(s.trail, fmt.Sprintf("sel%d", i))
		ch := cases[i].ch
		if in.States[i].Dir == types.SendOnly {
			closed := sx("select", fx.heapGet(s.heap, chClosed), ch)
			fx.decls.declare("CH$open", "(Array Int Bool)")
			s.assume(implies(sx("select", "CH$open", ch), not(closed)))
			fx.oblige(s, "safe", "send", not(closed), in.Pos(), "send on closed channel")
			s.assume(not(closed))
			l := fx.chLenOf(s, ch)
			c := sx("select", fx.heapGet(s.heap, chCap), ch)
			fx.heapSet(s, chLen, sx("store", fx.heapGet(s.heap, chLen), ch, ite(sx("<", l, c), sx("+", l, "1"), l)))
			fx.chanLogSend(s, ch, in.States[i].Chan.Type().Underlying().(*types.Chan).Elem(), cases[i].val)
		}
		s.assume(not(eq(ch, "0")))
		mkResult(s, i)
		alts = append(alts, alt{s, i})
	}
	if !in.Blocking {
		s := st.clone()
		s.trail = append(s.trail, "seldefault")
		for i := 0; i < n; i++ {
			ch := cases[i].ch
			l := fx.chLenOf(s, ch)
			closed := sx("select", fx.heapGet(s.heap, chClosed), ch)
			if in.States[i].Dir == types.RecvOnly {
				s.assume(or(eq(ch, "0"), and(not(closed), eq(l, "0"))))
			} else {
				c := sx("select", fx.heapGet(s.heap, chCap), ch)
				fx.decls.declare("CH$open", "(Array Int Bool)")
				s.assume(implies(sx("select", "CH$open", ch), not(closed)))
				s.assume(or(eq(ch, "0"), closed, sx(">=", l, c)))
			}
		}
		mkResult(s, -1)
		alts = append(alts, alt{s, -1})
	}
	// continue each alternative with the rest of the block: implemented by re-running the remaining instructions
	fx.forkAfter(st, in, func() []*State {
		var out []*State
		for _, a := range alts {
			out = append(out, a.st)
		}
		return out
	}())
}

func bigI(i int64) *bigInt { return new(bigInt).SetInt64(i) }

// forkAfter replaces the current state by several successor states after instruction `in`.
// The first alternative continues in place; the others are run to completion from the next instruction.
func (fx *FuncCtx) forkAfter(st *State, in ssa.Instruction, alts []*State) {
	if len(alts) == 0 {
		st.dead = true
		return
	}
	b := in.Block()
	pos := -1
	for i, x := range b.Instrs {
		if x == in {
			pos = i
		}
	}
	for _, a := range alts[1:] {
		fx.npaths++
		if fx.npaths > maxPaths {
			fx.failf("path explosion in %s", fx.key)
		}
		fx.runFrom(a, b, pos+1)
	}
	// continue with the first alternative in place
	first := alts[0]
	*st = *first
}

// runFrom executes block b starting at instruction index i, then continues normally.
func (fx *FuncCtx) runFrom(st *State, b *ssa.BasicBlock, i int) {
	var next *ssa.BasicBlock
	for _, in := range b.Instrs[i:] {
		if st.dead {
			return
		}
		switch in := in.(type) {
		case *ssa.If:
			c := fx.val(st, in.Cond).s()
			if c == "true" {
				next = b.Succs[0]
			} else if c == "false" {
				next = b.Succs[1]
			} else {
				st2 := st.clone()
				st2.assume(not(c))
				st2.trail = append(st2.trail, fmt.Sprintf("b%d:F", b.Index))
				st.assume(c)
				st.trail = append(st.trail, fmt.Sprintf("b%d:T", b.Index))
				fx.npaths++
				fx.run(st2, b.Succs[1], b)
				next = b.Succs[0]
			}
		case *ssa.Jump:
			next = b.Succs[0]
		case *ssa.Return:
			if fx.inlineReturn(st, in) {
				return
			}
			fx.doReturn(st, in)
			return
		case *ssa.Panic:
			fx.oblige(st, "safe", "panic", "false", in.Pos(), "explicit panic is unreachable")
			return
		default:
			fx.exec(st, in)
		}
	}
	if next != nil && !st.dead {
		fx.run(st, next, b)
	}
}

func (fx *FuncCtx) sendModel(st *State, in *ssa.Send) {
	fx.chanEnvStep(st)
	ch := fx.val(st, in.Chan).s()
	closed := sx("select", fx.heapGet(st.heap, chClosed), ch)
	fx.decls.declare("CH$open", "(Array Int Bool)")
	st.assume(implies(sx("select", "CH$open", ch), not(closed)))
	fx.oblige(st, "safe", "send", not(closed), in.Pos(), "send on closed channel")
	st.assume(not(closed))
	l := fx.chLenOf(st, ch)
	c := sx("select", fx.heapGet(st.heap, chCap), ch)
	fx.heapSet(st, chLen, sx("store", fx.heapGet(st.heap, chLen), ch, ite(sx("<", l, c), sx("+", l, "1"), l)))
	fx.chanLogSend(st, ch, in.Chan.Type().Underlying().(*types.Chan).Elem(), fx.val(st, in.X))
}

// timer ghost state (standard-library contracts: tmState[channel] = 0 idle, 1 armed, 2 holds an unreceived tick)
func (fx *FuncCtx) timerRecv(st *State, ch string, blocking bool, pos token.Pos) {
	if !fx.timerChans[ch] {
		return
	}
	k := HeapKey{"GG$tmState", "(Array Int Int)"}
	cur := fx.heapGet(st.heap, k)
	if blocking {
		fx.oblige(st, "safe", "timerwait", not(eq(sx("select", cur, ch), "0")), pos, "receive from the channel of a timer that is neither armed nor holds a tick (blocks forever)")
	}
	st.assume(not(eq(sx("select", cur, ch), "0")))
	fx.heapSet(st, k, sx("store", cur, ch, "0"))
}

func (fx *FuncCtx) recvModel(st *State, in *ssa.UnOp, chv Val) {
	fx.chanEnvStep(st)
	ch := chv.s()
	fx.timerRecv(st, ch, true, in.Pos())
	et := chv.T.Underlying().(*types.Chan).Elem()
	v := fx.freshVal("recv", et)
	fx.assumeTyping(st, v)
	ok := fx.decls.fresh("recvok", "Bool")
	l := fx.chLenOf(st, ch)
	closed := sx("select", fx.heapGet(st.heap, chClosed), ch)
	if signalOnly(chv.T) {
		st.assume(closed)
		fx.trusted["signal channels: a completed receive from a `<-chan struct{}` (Done()-style channel, never sent to) means the channel is closed"] = true
	}
	st.assume(implies(and(closed, eq(l, "0")), not(ok)))
	st.assume(implies(not(closed), ok))
	fx.heapSet(st, chLen, sx("store", fx.heapGet(st.heap, chLen), ch, ite(sx(">", l, "0"), sx("-", l, "1"), l)))
	fx.chanLogRecv(st, ch, et, v, ok)
	if in.CommaOk {
		st.regs[in] = Val{T: in.Type(), Tup: []Val{v, {T: BoolT, C: []string{ok}}}}
		return
	}
	st.regs[in] = v
}

// range over a map: an arbitrary sequence of present keys
func (fx *FuncCtx) rangeModel(st *State, in *ssa.Range) {
	x := fx.val(st, in.X)
	if _, ok := in.X.Type().Underlying().(*types.Map); !ok {
		fx.failf("range over %s", typeStr(in.X.Type()))
	}
	st.regs[in] = Val{T: in.Type(), C: []string{x.s()}}
}

func (fx *FuncCtx) nextModel(st *State, in *ssa.Next) {
	if in.IsString {
		fx.failf("range over string")
	}
	it := fx.val(st, in.Iter)
	rng := in.Iter.(*ssa.Range)
	mt := rng.X.Type().Underlying().(*types.Map)
	dom, vals, _, vcs := fx.mapKeys(mt)
	ok := fx.decls.fresh("rangeok", "Bool")
	k := fx.freshVal("rangek", mt.Key())
	fx.assumeTyping(st, k)
	m := it.s()
	st.assume(implies(ok, and(not(eq(m, "0")), sx("select", sx("select", fx.heapGet(st.heap, dom), m), k.s()))))
	v := Val{T: mt.Elem()}
	for j := range vcs {
		v.C = append(v.C, sx("select", sx("select", fx.heapGet(st.heap, vals[j]), m), k.s()))
	}
	fx.assumeTyping(st, v)
	st.regs[in] = Val{T: in.Type(), Tup: []Val{{T: BoolT, C: []string{ok}}, k, v}}
	fx.trusted["map iteration modelled as an arbitrary sequence of present keys (no each-key-once guarantee)"] = true
}

// signalOnly: receive-only channel of empty structs (Done()-style)
func signalOnly(t types.Type) bool {
	c, ok := t.Underlying().(*types.Chan)
	if !ok || c.Dir() != types.RecvOnly {
		return false
	}
	st, ok := c.Elem().Underlying().(*types.Struct)
	return ok && st.NumFields() == 0
}
