package main

import (
	"fmt"
	"go/token"
	"go/types"
	"sort"
	"strings"

	"golang.org/x/tools/go/ssa"
)

var fsetGlobal = token.NewFileSet()

// Decls: declared SMT symbols of one function's verification.
type Decls struct {
	consts map[string]string // name -> sort
	funs   map[string]string // name -> full declaration
	n      int
	sorts  map[string]bool
	strs   map[string]string // string literal -> const name
}

func newDecls() *Decls {
	return &Decls{consts: map[string]string{}, funs: map[string]string{}, sorts: map[string]bool{}, strs: map[string]string{}}
}

func (d *Decls) declare(name, sort string) string {
	if s, ok := d.consts[name]; ok && s != sort {
		panic(fmt.Sprintf("redeclaration of %s: %s vs %s", name, s, sort))
	}
	d.consts[name] = sort
	return name
}

func (d *Decls) fresh(prefix, sort string) string {
	d.n++
	name := fmt.Sprintf("%s@%d", sanitize(prefix), d.n)
	d.consts[name] = sort
	return name
}

func (d *Decls) declareFun(name string, args []string, res string) {
	d.funs[name] = fmt.Sprintf("(declare-fun %s (%s) %s)", name, strings.Join(args, " "), res)
}

func (d *Decls) strConst(s string) string {
	if s == "" {
		d.consts["str$empty"] = "Str"
		return "str$empty"
	}
	if n, ok := d.strs[s]; ok {
		return n
	}
	n := fmt.Sprintf("str$%d", len(d.strs)+1)
	d.strs[s] = n
	d.consts[n] = "Str"
	return n
}

// hypothesis list (persistent)
type hypNode struct {
	parent *hypNode
	s      string
	n      int
}

func (h *hypNode) add(s string) *hypNode {
	if s == "true" || s == "" {
		return h
	}
	n := 1
	if h != nil {
		n = h.n + 1
	}
	return &hypNode{h, s, n}
}

func (h *hypNode) list() []string {
	var out []string
	for x := h; x != nil; x = x.parent {
		out = append(out, x.s)
	}
	for i, j := 0, len(out)-1; i < j; i, j = i+1, j-1 {
		out[i], out[j] = out[j], out[i]
	}
	return out
}

// Loc: engine-level pointer target.
type LocKind int

const (
	LocCell LocKind = iota
	LocField
	LocElem
	LocGlobal
	LocVararg
)

type Loc struct {
	Kind LocKind
	Cell ssa.Value  // *ssa.Alloc or *ssa.FreeVar
	Ref  string     // object reference (LocField)
	Root types.Type // struct type owning the field path
	Path string     // dotted field path
	Base string     // array object (LocElem)
	Idx  string     // absolute index (LocElem)
	Glob *ssa.Global
	T    types.Type // pointee type
	Sub  string     // sub-path inside a cell/elem holding a struct value
}

type Val struct {
	T    types.Type
	C    []string
	L    *Loc
	Tup  []Val
	Fn   *ssa.Function // static function / closure code
	Bind []Val         // closure bindings
}

func (v Val) s() string {
	if len(v.C) != 1 {
		panic(fmt.Sprintf("value of type %s has %d components, want 1", typeStr(v.T), len(v.C)))
	}
	return v.C[0]
}

type deferred struct {
	call *ssa.CallCommon
	args []Val
	fn   Val
	pos  token.Pos
}

type State struct {
	regs    map[ssa.Value]Val
	cells   map[ssa.Value]Val
	heap    map[string]string
	hyps    *hypNode
	held    map[string]string // mutex key -> "w"/"r"
	atlock  map[string]string
	defers  []deferred
	inLoop  map[*ssa.BasicBlock]bool
	freshRefs map[string]bool
	prev    *ssa.BasicBlock
	trail   []string // branch decisions (for naming / debugging)
	unlockN int
	callN   map[string]int
	dead    bool
	lockCount int
	writes    map[string]map[string]bool
	hypSeen   map[string]bool
	frames    []*inlFrame
	exempt    []string // key|base of arrays owned by monitors (never framed)
	vararg    map[ssa.Value][]Val // element values of compiler-generated variadic argument arrays
	spawned   []spawnRec          // goroutines started by `go` and not yet joined by WaitGroup.Wait
	onceRun   []onceRec           // sync.Once bodies being executed in place: `done` is set when the body has returned
}

type onceRec struct {
	ref   string
	depth int
}

type spawnRec struct {
	fn   *ssa.Function
	fc   *FuncContract
	fnv  Val
	args []Val
}

func (s *State) clone() *State {
	n := &State{hyps: s.hyps, prev: s.prev, unlockN: s.unlockN, dead: s.dead, lockCount: s.lockCount}
	n.regs = make(map[ssa.Value]Val, len(s.regs))
	for k, v := range s.regs {
		n.regs[k] = v
	}
	n.cells = make(map[ssa.Value]Val, len(s.cells))
	for k, v := range s.cells {
		n.cells[k] = v
	}
	n.heap = copyMap(s.heap)
	n.held = copyMap(s.held)
	n.atlock = s.atlock
	n.defers = append([]deferred(nil), s.defers...)
	n.inLoop = make(map[*ssa.BasicBlock]bool, len(s.inLoop))
	for k, v := range s.inLoop {
		n.inLoop[k] = v
	}
	n.freshRefs = make(map[string]bool, len(s.freshRefs))
	for k, v := range s.freshRefs {
		n.freshRefs[k] = v
	}
	n.trail = append([]string(nil), s.trail...)
	n.writes = make(map[string]map[string]bool, len(s.writes))
	for k, v := range s.writes {
		m := make(map[string]bool, len(v))
		for a, b := range v {
			m[a] = b
		}
		n.writes[k] = m
	}
	n.hypSeen = make(map[string]bool, len(s.hypSeen))
	for k, v := range s.hypSeen {
		n.hypSeen[k] = v
	}
	n.frames = append([]*inlFrame(nil), s.frames...)
	n.exempt = s.exempt
	n.spawned = append([]spawnRec(nil), s.spawned...)
	n.onceRun = append([]onceRec(nil), s.onceRun...)
	if s.vararg != nil {
		n.vararg = make(map[ssa.Value][]Val, len(s.vararg))
		for k, v := range s.vararg {
			n.vararg[k] = append([]Val(nil), v...)
		}
	}
	n.callN = make(map[string]int, len(s.callN))
	for k, v := range s.callN {
		n.callN[k] = v
	}
	return n
}

func copyMap(m map[string]string) map[string]string {
	n := make(map[string]string, len(m))
	for k, v := range m {
		n[k] = v
	}
	return n
}

func (s *State) assume(h string) {
	if op, args := sexprArgs(h); op == "and" {
		for _, a := range args {
			s.assume(a)
		}
		return
	}
	if h == "true" || h == "" {
		return
	}
	if s.hypSeen == nil {
		s.hypSeen = map[string]bool{}
	}
	if s.hypSeen[h] {
		return
	}
	s.hypSeen[h] = true
	s.hyps = s.hyps.add(h)
}

func (s *State) noteWrite(key, ref string) {
	if s.writes == nil {
		s.writes = map[string]map[string]bool{}
	}
	m := s.writes[key]
	if m == nil {
		m = map[string]bool{}
		s.writes[key] = m
	}
	m[ref] = true
}

// ---------------------------------------------------------------- heap keys

type HeapKey struct {
	Key  string
	Sort string
}

func (fx *FuncCtx) fieldKey(root types.Type, path string, c comp) HeapKey {
	k := "H$" + sanitize(structKey(root)) + "." + path + c.suffix
	if c.kind == "ref" {
		fx.refKeys[k] = 0
	}
	return HeapKey{k, "(Array Int " + c.sort + ")"}
}

func (fx *FuncCtx) elemKey(elem types.Type, c comp) HeapKey {
	k := "A$" + sanitize(typeStr(elem)) + c.suffix
	if c.kind == "ref" {
		fx.refKeys[k] = 1
	}
	if c.kind == "int" && fx.mode == ModeInt {
		if lt := leafType(elem, c); lt != nil {
			if b, _, ok := intInfo(lt); ok && b > 0 {
				fx.intElemKeys[k] = lt
			}
		}
	}
	return HeapKey{k, "(Array Int (Array " + fx.mode.lenSort() + " " + c.sort + "))"}
}

func (fx *FuncCtx) globalKey(g *ssa.Global, c comp) HeapKey {
	k := "G$" + sanitize(g.Pkg.Pkg.Name()+"."+g.Name()) + c.suffix
	return HeapKey{k, c.sort}
}

func (fx *FuncCtx) mapKeys(mt *types.Map) (dom HeapKey, val []HeapKey, kc comp, vcs []comp) {
	kcs := fx.mode.comps(mt.Key())
	if len(kcs) != 1 {
		panic(unsupported("map with composite key " + typeStr(mt)))
	}
	kc = kcs[0]
	id := sanitize(typeStr(mt.Key()) + "-" + typeStr(mt.Elem()))
	dom = HeapKey{"MD$" + id, "(Array Int (Array " + kc.sort + " Bool))"}
	vcs = fx.mode.comps(mt.Elem())
	for _, vc := range vcs {
		hk := HeapKey{"MV$" + id + vc.suffix, "(Array Int (Array " + kc.sort + " " + vc.sort + "))"}
		val = append(val, hk)
		if vc.kind == "ref" {
			fx.refKeys[hk.Key] = 2
			fx.mapKeySort[hk.Key] = kc.sort
		}
	}
	return
}

// current term of a heap key in map h (declares the initial version on first use)
func (fx *FuncCtx) heapGet(h map[string]string, k HeapKey) string {
	if t, ok := h[k.Key]; ok {
		return t
	}
	name := k.Key + "@0"
	fx.decls.declare(name, k.Sort)
	fx.keySorts[k.Key] = k.Sort
	// the initial version is shared by all states of the function (entry heap)
	return name
}

func (fx *FuncCtx) heapSet(st *State, k HeapKey, term string) {
	fx.keySorts[k.Key] = k.Sort
	// remember which object was written (for syntactic frame checks)
	if op, args := sexprArgs(term); op == "store" && len(args) == 3 {
		st.noteWrite(k.Key, args[1])
		// storing back the value the location holds already changes nothing: keep the heap version (fewer array terms)
		if cur, ok := st.heap[k.Key]; ok && args[0] == cur && args[2] == sx("select", cur, args[1]) {
			return
		}
	} else {
		st.noteWrite(k.Key, "*")
	}
	// name the new version to keep terms small
	if len(term) > 48 {
		n := fx.decls.fresh(k.Key, k.Sort)
		st.assume(eq(n, term))
		term = n
	}
	st.heap[k.Key] = term
}

type unsupported string

func (u unsupported) Error() string { return "unsupported: " + string(u) }

// ---------------------------------------------------------------- loads and stores through Locs

func subComps(all []comp, prefix string) (idx []int) {
	for i, c := range all {
		if prefix == "" || strings.HasPrefix(c.suffix, prefix) {
			idx = append(idx, i)
		}
	}
	return
}

func (fx *FuncCtx) load(st *State, h map[string]string, l *Loc) Val {
	switch l.Kind {
	case LocCell:
		v, ok := st.cells[l.Cell]
		if !ok {
			panic(fmt.Sprintf("load from uninitialised cell %s", l.Cell.Name()))
		}
		if l.Sub != "" {
			all := fx.mode.comps(v.T)
			var cs []string
			for i, c := range all {
				if strings.HasPrefix(c.suffix, l.Sub) {
					cs = append(cs, v.C[i])
				}
			}
			return Val{T: l.T, C: cs}
		}
		return v
	case LocField:
		cs := fx.mode.comps(l.T)
		out := Val{T: l.T}
		for _, c := range cs {
			k := fx.fieldKey(l.Root, l.Path, c)
			out.C = append(out.C, sx("select", fx.heapGet(h, k), l.Ref))
		}
		return out
	case LocElem:
		cs := fx.mode.comps(l.T)
		out := Val{T: l.T}
		// l.Sub selects a sub-struct of the element type; element type recorded in Root
		et := l.T
		if l.Root != nil {
			et = l.Root
		}
		all := fx.mode.comps(et)
		for _, c := range all {
			if l.Sub != "" && !strings.HasPrefix(c.suffix, l.Sub) {
				continue
			}
			k := fx.elemKey(et, c)
			out.C = append(out.C, sx("select", sx("select", fx.heapGet(h, k), l.Base), l.Idx))
		}
		_ = cs
		return out
	case LocGlobal:
		cs := fx.mode.comps(l.T)
		out := Val{T: l.T}
		for _, c := range cs {
			k := fx.globalKey(l.Glob, c)
			out.C = append(out.C, fx.heapGet(h, k))
		}
		return out
	}
	panic("bad loc")
}

func (fx *FuncCtx) store(st *State, l *Loc, v Val) {
	switch l.Kind {
	case LocCell:
		if l.Sub != "" {
			old := st.cells[l.Cell]
			all := fx.mode.comps(old.T)
			nc := append([]string(nil), old.C...)
			j := 0
			for i, c := range all {
				if strings.HasPrefix(c.suffix, l.Sub) {
					nc[i] = v.C[j]
					j++
				}
			}
			st.cells[l.Cell] = Val{T: old.T, C: nc}
			return
		}
		st.cells[l.Cell] = v
	case LocField:
		cs := fx.mode.comps(l.T)
		if len(cs) != len(v.C) {
			panic(fmt.Sprintf("store: %d comps into field %s of %d", len(v.C), l.Path, len(cs)))
		}
		for i, c := range cs {
			k := fx.fieldKey(l.Root, l.Path, c)
			fx.heapSet(st, k, sx("store", fx.heapGet(st.heap, k), l.Ref, v.C[i]))
		}
	case LocElem:
		et := l.T
		if l.Root != nil {
			et = l.Root
		}
		all := fx.mode.comps(et)
		j := 0
		for _, c := range all {
			if l.Sub != "" && !strings.HasPrefix(c.suffix, l.Sub) {
				continue
			}
			k := fx.elemKey(et, c)
			cur := fx.heapGet(st.heap, k)
			fx.heapSet(st, k, sx("store", cur, l.Base, sx("store", sx("select", cur, l.Base), l.Idx, v.C[j])))
			j++
		}
	case LocGlobal:
		cs := fx.mode.comps(l.T)
		for i, c := range cs {
			k := fx.globalKey(l.Glob, c)
			fx.keySorts[k.Key] = k.Sort
			st.heap[k.Key] = v.C[i]
		}
	case LocVararg:
		var i int
		fmt.Sscan(l.Idx, &i)
		st.vararg[l.Cell][i] = v
	}
}

// elements of a fresh unknown inner array are values of the element type
func (fx *FuncCtx) assumeArrayTyping(st *State, arr string, elem types.Type, c comp) {
	if fx.mode == ModeInt && c.kind == "ref" {
		fx.assumeRefArray(st, arr, fx.mode.lenSort())
		return
	}
	if fx.mode == ModeInt && c.kind == "len" {
		fx.decls.n++
		q := fmt.Sprintf("q$tl!%d", fx.decls.n)
		st.assume("(forall ((" + q + " Int)) (! " + and(sx("<=", "0", sx("select", arr, q)), sx("<", sx("select", arr, q), pow2(62).String())) + " :pattern (" + sx("select", arr, q) + ")))")
		return
	}
	if fx.mode != ModeInt || c.kind != "int" {
		return
	}
	lt := leafType(elem, c)
	if b, _, ok := intInfo(lt); !ok || b == 0 {
		return
	}
	fx.decls.n++
	q := fmt.Sprintf("q$ty!%d", fx.decls.n)
	st.assume("(forall ((" + q + " Int)) (! " + fx.ar.rangeFact(sx("select", arr, q), lt) + " :pattern (" + sx("select", arr, q) + ")))")
}

// typing facts for an unknown value of Go type t
func (fx *FuncCtx) typingFacts(v Val) []string {
	var out []string
	if v.T == nil || len(v.C) == 0 {
		return nil
	}
	cs := fx.mode.comps(v.T)
	if len(cs) != len(v.C) {
		return nil
	}
	for i, c := range cs {
		switch c.kind {
		case "int":
			ct := c.typ
			if f := fx.ar.rangeFact(v.C[i], leafType(v.T, c)); f != "true" {
				out = append(out, f)
				_ = ct
			}
		case "len":
			if fx.mode == ModeInt {
				out = append(out, sx("<=", "0", v.C[i]), sx("<", v.C[i], pow2(62).String()))
			} else {
				out = append(out, sx("bvsle", fx.mode.num(big0(), c.sort), v.C[i]), sx("bvslt", v.C[i], fx.mode.num(pow2(62), c.sort)))
			}
		}
	}
	// slices: off+len <= ... cap >= len, off >= 0
	if _, ok := v.T.Underlying().(*types.Slice); ok && len(v.C) == 4 {
		if fx.mode == ModeInt {
			out = append(out, sx("<=", v.C[2], v.C[3]), implies(eq(v.C[0], "0"), and(eq(v.C[2], "0"), eq(v.C[3], "0"))))
		} else {
			out = append(out, sx("bvsle", v.C[2], v.C[3]), implies(eq(v.C[0], "0"), and(eq(v.C[2], fx.mode.num(big0(), fx.mode.lenSort())), eq(v.C[3], fx.mode.num(big0(), fx.mode.lenSort())))))
		}
	}
	if _, ok := v.T.Underlying().(*types.Interface); ok && len(v.C) == 2 {
		out = append(out, implies(eq(v.C[0], "0"), eq(v.C[1], "0")), sx(">=", v.C[0], "0"))
	}
	return out
}

// leafType finds the scalar Go type of a component (walks struct fields by suffix).
func leafType(t types.Type, c comp) types.Type {
	if c.suffix == "" {
		return t
	}
	parts := strings.Split(strings.TrimPrefix(c.suffix, "."), ".")
	cur := t
	for _, p := range parts {
		name := p
		if i := strings.Index(p, "!"); i >= 0 {
			name = p[:i]
		}
		if name == "" {
			break
		}
		st, ok := cur.Underlying().(*types.Struct)
		if !ok {
			break
		}
		found := false
		for i := 0; i < st.NumFields(); i++ {
			if st.Field(i).Name() == name {
				cur = st.Field(i).Type()
				found = true
				break
			}
		}
		if !found {
			break
		}
	}
	return cur
}

func sortedHeapKeys(m map[string]string) []string {
	ks := make([]string, 0, len(m))
	for k := range m {
		ks = append(ks, k)
	}
	sort.Strings(ks)
	return ks
}
