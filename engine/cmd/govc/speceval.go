package main

import (
	"regexp"
	"fmt"
	"go/constant"
	"go/types"
	"math/big"
	"sort"
	"strings"

	"golang.org/x/tools/go/ssa"
)

type SpecEnv struct {
	fx     *FuncCtx
	pkg    *types.Package // package whose names are in scope
	vars   map[string]Val
	cur    map[string]string
	old    map[string]string
	atlock map[string]string
	st     *State
	side   *[]string
	reads  map[string]HeapKey
	depth  int
	reveal map[string]bool
	inOld  bool
	entryTop string // allocator position at the entry of the function whose contract is evaluated
	atEntry  bool   // evaluating the preconditions assumed at the entry of the function under verification
}

func (e *SpecEnv) with(vars map[string]Val) *SpecEnv {
	n := *e
	n.vars = map[string]Val{}
	for k, v := range e.vars {
		n.vars[k] = v
	}
	for k, v := range vars {
		n.vars[k] = v
	}
	return &n
}

func (e *SpecEnv) heapRead(k HeapKey) string {
	if e.reads != nil {
		e.reads[k.Key] = k
	}
	return e.fx.heapGet(e.cur, k)
}

type specErr struct{ msg string }

func (s specErr) Error() string { return s.msg }

func sfail(format string, args ...any) {
	panic(specErr{fmt.Sprintf(format, args...)})
}

func (e *SpecEnv) boxed(t types.Type, data string) Val {
	out := Val{T: t}
	for _, c := range e.mode().comps(t) {
		k := HeapKey{"BOX$" + sanitize(typeStr(t)) + c.suffix, "(Array Int " + c.sort + ")"}
		out.C = append(out.C, sx("select", e.heapRead(k), data))
	}
	return out
}

func (e *SpecEnv) pc() *PkgContracts {
	if e.pkg == nil {
		return nil
	}
	return e.fx.eng.contracts[e.pkg.Path()]
}

func (e *SpecEnv) boolTerm(x Expr) string {
	v := e.eval(x)
	if len(v.C) != 1 {
		sfail("expected boolean, got %s in %s", typeStr(v.T), x)
	}
	return v.C[0]
}

func (e *SpecEnv) mode() Mode { return e.fx.mode }

func mathVal(t string) Val { return Val{T: MathInt, C: []string{t}} }
func boolVal(t string) Val { return Val{T: BoolT, C: []string{t}} }

func (e *SpecEnv) eval(x Expr) Val {
	switch x := x.(type) {
	case *EInt:
		v, _ := new(big.Int).SetString(x.V, 10)
		return Val{T: MathInt, C: []string{e.mode().num(v, "Int")}}
	case *EBool:
		if x.V {
			return boolVal("true")
		}
		return boolVal("false")
	case *EStr:
		return Val{T: types.Typ[types.String], C: []string{e.fx.decls.strConst(x.V)}}
	case *ENil:
		return Val{T: types.Typ[types.UntypedNil], C: []string{"0"}}
	case *EIdent:
		return e.ident(x.Name)
	case *ESel:
		return e.sel(x)
	case *EIndex:
		return e.index(x)
	case *ECall:
		return e.call(x)
	case *EUnary:
		v := e.eval(x.X)
		switch x.Op {
		case "!":
			return boolVal(not(v.s()))
		case "-":
			if e.mode() == ModeBV && isBV(e, v) {
				return Val{T: v.T, C: []string{sx("bvneg", v.s())}}
			}
			if lv, ok := litVal(v.s()); ok {
				return Val{T: v.T, C: []string{e.mode().num(new(big.Int).Neg(lv), "Int")}}
			}
			return Val{T: v.T, C: []string{sx("-", v.s())}}
		case "^":
			if e.mode() == ModeBV {
				return Val{T: v.T, C: []string{sx("bvnot", v.s())}}
			}
		}
		sfail("unsupported unary %s", x.Op)
	case *EBinary:
		return e.binary(x)
	case *EQuant:
		return e.quant(x)
	case *ESlice:
		v := e.eval(x.X)
		if _, ok := v.T.Underlying().(*types.Slice); !ok {
			sfail("slice expr on non-slice %s", x)
		}
		lo := e.lenLit(0)
		if x.Lo != nil {
			lo = e.asLen(e.eval(x.Lo))
		}
		hi := v.C[2]
		if x.Hi != nil {
			hi = e.asLen(e.eval(x.Hi))
		}
		return Val{T: v.T, C: []string{v.C[0], e.lenAdd(v.C[1], lo), e.lenSub(hi, lo), e.lenSub(v.C[3], lo)}}
	case *EStar:
		v := e.eval(x.X)
		if v.L != nil {
			return e.fx.load(e.st, e.cur, v.L)
		}
		// pointer to struct: the struct value
		if p, ok := v.T.Underlying().(*types.Pointer); ok {
			l := &Loc{Kind: LocField, Ref: v.s(), Root: p.Elem(), Path: "", T: p.Elem()}
			return e.loadStructAt(l)
		}
		sfail("cannot dereference %s", x)
	}
	sfail("unsupported spec expression %T %s", x, x)
	return Val{}
}

func isBV(e *SpecEnv, v Val) bool {
	if v.T == nil {
		return false
	}
	b, _, ok := intInfo(v.T)
	return ok && b > 0
}

func (e *SpecEnv) lenLit(i int64) string { return e.mode().num(big.NewInt(i), e.mode().lenSort()) }
func (e *SpecEnv) lenAdd(a, b string) string {
	if e.mode() == ModeBV {
		return sx("bvadd", a, b)
	}
	if a == "0" {
		return b
	}
	if b == "0" {
		return a
	}
	// off + (j - off) = j (re-based bound variables, see quant)
	if strings.HasPrefix(b, "(- ") && strings.HasSuffix(b, " "+a+")") {
		if inner := b[3 : len(b)-len(a)-2]; inner != "" && balanced(inner) {
			return inner
		}
	}
	return sx("+", a, b)
}

func mentionsIdent(x Expr, name string) bool {
	return regexp.MustCompile(`\b` + regexp.QuoteMeta(name) + `\b`).MatchString(x.String())
}
func (e *SpecEnv) lenSub(a, b string) string {
	if e.mode() == ModeBV {
		return sx("bvsub", a, b)
	}
	if b == "0" {
		return a
	}
	return sx("-", a, b)
}

// asLen converts an integer Val to the sort used for lengths/indices.
func (e *SpecEnv) asLen(v Val) string {
	if e.mode() == ModeInt {
		return v.s()
	}
	if lv, ok := litVal(v.s()); ok && !strings.HasPrefix(v.s(), "(_ bv") {
		return e.mode().num(lv, e.mode().lenSort())
	}
	b, _, ok := intInfo(v.T)
	if ok && b == 64 {
		return v.s()
	}
	if ok && b > 0 {
		return e.fx.ar.conv(v.s(), v.T, types.Typ[types.Int], false)
	}
	sfail("cannot use %s as index in bv mode", typeStr(v.T))
	return ""
}

func (e *SpecEnv) loadStructAt(l *Loc) Val {
	cs := e.mode().comps(l.T)
	out := Val{T: l.T}
	for _, c := range cs {
		k := e.fx.fieldKey(l.Root, strings.TrimPrefix(l.Path+c.suffix, "."), comp{sort: c.sort})
		_ = k
	}
	// generic: field by field
	for _, c := range cs {
		path := strings.TrimPrefix(c.suffix, ".")
		// split path into field path and component suffix
		fp, suf := path, ""
		if i := strings.Index(path, "!"); i >= 0 {
			fp, suf = path[:i], path[i:]
		}
		full := fp
		if l.Path != "" {
			full = l.Path + "." + fp
		}
		k := e.fx.fieldKey(l.Root, full, comp{suffix: suf, sort: c.sort, kind: c.kind})
		out.C = append(out.C, sx("select", e.heapRead(k), l.Ref))
	}
	return out
}

func (e *SpecEnv) ident(name string) Val {
	if v, ok := e.vars[name]; ok {
		if v.L != nil && v.C == nil {
			// a cell: read its current content
			return e.fx.load(e.st, e.cur, v.L)
		}
		return v
	}
	// ghost globals
	if gk, ok := e.fx.eng.ghostGlobal(e.pkg, name); ok {
		return e.readGhostGlobal(gk)
	}
	if e.pkg != nil {
		if obj := e.pkg.Scope().Lookup(name); obj != nil {
			return e.object(obj)
		}
	}
	if obj := types.Universe.Lookup(name); obj != nil {
		if c, ok := obj.(*types.Const); ok {
			return e.constVal(c)
		}
	}
	if to, ok := e.fx.rename[name]; ok && to != name {
		return e.ident(to)
	}
	sfail("unknown identifier %q", name)
	return Val{}
}

func (e *SpecEnv) readGhostGlobal(g ghostGlobalInfo) Val {
	cs := e.mode().comps(g.T)
	k := HeapKey{"GG$" + g.Name, cs[0].sort}
	return Val{T: g.T, C: []string{e.heapRead(k)}}
}

func (e *SpecEnv) constVal(c *types.Const) Val {
	v := c.Val()
	switch v.Kind() {
	case constant.Int:
		bi, _ := new(big.Int).SetString(v.ExactString(), 10)
		t := c.Type()
		if e.mode() == ModeBV {
			if b, _, ok := intInfo(t); ok && b > 0 {
				return Val{T: t, C: []string{e.mode().num(bi, e.mode().intSort(t))}}
			}
		}
		return Val{T: MathInt, C: []string{e.mode().num(bi, "Int")}}
	case constant.Bool:
		if constant.BoolVal(v) {
			return boolVal("true")
		}
		return boolVal("false")
	case constant.String:
		return Val{T: types.Typ[types.String], C: []string{e.fx.decls.strConst(constant.StringVal(v))}}
	}
	sfail("unsupported constant %s", c.Name())
	return Val{}
}

func (e *SpecEnv) object(obj types.Object) Val {
	switch o := obj.(type) {
	case *types.Const:
		return e.constVal(o)
	case *types.Var:
		g := e.fx.eng.globalFor(o)
		if g == nil {
			sfail("no ssa global for %s", o.Name())
		}
		l := &Loc{Kind: LocGlobal, Glob: g, T: o.Type()}
		cs := e.mode().comps(o.Type())
		out := Val{T: o.Type()}
		for _, c := range cs {
			out.C = append(out.C, e.heapRead(e.fx.globalKey(g, c)))
		}
		_ = l
		return out
	case *types.Func:
		fn := e.fx.eng.prog.FuncValue(o)
		if fn == nil {
			sfail("no ssa function for %s", o.Name())
		}
		return Val{T: o.Type(), C: []string{e.fx.eng.fnID(fn)}, Fn: fn}
	}
	sfail("unsupported object %s", obj)
	return Val{}
}

func namedOf(t types.Type) *types.Named {
	if p, ok := t.(*types.Pointer); ok {
		t = p.Elem()
	}
	n, _ := t.(*types.Named)
	return n
}

func (e *SpecEnv) sel(x *ESel) Val {
	// package-qualified?
	if id, ok := x.X.(*EIdent); ok {
		if _, isVar := e.vars[id.Name]; !isVar && e.pkg != nil {
			for _, imp := range e.pkg.Imports() {
				if imp.Name() == id.Name {
					obj := imp.Scope().Lookup(x.Name)
					if obj == nil {
						sfail("unknown %s.%s", id.Name, x.Name)
					}
					return e.object(obj)
				}
			}
		}
	}
	v := e.eval(x.X)
	return e.fieldOf(v, x.Name, x)
}

func (e *SpecEnv) fieldOf(v Val, name string, x Expr) Val {
	if v.T == nil {
		sfail("selector on untyped value in %s", x)
	}
	nt := namedOf(v.T)
	// ghost field?
	if nt != nil {
		if gf, ok := e.fx.eng.ghostField(nt, name); ok {
			if _, isPtr := v.T.Underlying().(*types.Pointer); !isPtr {
				sfail("ghost field on non-pointer in %s", x)
			}
			cs := e.mode().comps(gf.T)
			k := e.fx.fieldKey(nt, "ghost$"+name, cs[0])
			return Val{T: gf.T, C: []string{sx("select", e.heapRead(k), v.s())}}
		}
	}
	// pointer to struct
	if p, ok := v.T.Underlying().(*types.Pointer); ok {
		st, ok := p.Elem().Underlying().(*types.Struct)
		if !ok {
			sfail("selector .%s on pointer to non-struct in %s", name, x)
		}
		_ = st
		obj, idx, _ := types.LookupFieldOrMethod(p.Elem(), true, e.pkgFor(p.Elem()), name)
		fld, ok := obj.(*types.Var)
		if !ok {
			sfail("no field %s in %s (%s)", name, typeStr(p.Elem()), x)
		}
		// walk the index path (embedded fields)
		cur := p.Elem()
		ref := v.s()
		path := ""
		for k, i := range idx {
			s := cur.Underlying().(*types.Struct)
			f := s.Field(i)
			if path != "" {
				path += "."
			}
			path += f.Name()
			if k < len(idx)-1 {
				// embedded: by value (extend path) or by pointer (deref)
				if fp, isPtr := f.Type().Underlying().(*types.Pointer); isPtr {
					kk := e.fx.fieldKey(cur0(cur, p.Elem()), path, comp{sort: "Int"})
					ref = sx("select", e.heapRead(kk), ref)
					cur = fp.Elem()
					path = ""
					continue
				}
				cur = f.Type()
				continue
			}
		}
		root := p.Elem()
		if path == "" {
			sfail("empty field path")
		}
		// if we dereferenced embedded pointers, root changed
		root = rootAfter(p.Elem(), idx)
		l := &Loc{Kind: LocField, Ref: ref, Root: root, Path: path, T: fld.Type()}
		cs := e.mode().comps(fld.Type())
		out := Val{T: fld.Type()}
		for _, c := range cs {
			out.C = append(out.C, sx("select", e.heapRead(e.fx.fieldKey(l.Root, l.Path, c)), l.Ref))
		}
		if len(cs) == 0 {
			out.L = l // opaque (mutex etc.)
		}
		// values of Go fields are well-typed (only for ground reads; reads under binders carry no facts)
		if e.side != nil && !strings.Contains(ref, "q$") {
			for _, f := range e.fx.typingFacts(out) {
				*e.side = append(*e.side, f)
			}
		}
		return out
	}
	// struct value
	if st, ok := v.T.Underlying().(*types.Struct); ok {
		all := e.mode().comps(v.T)
		for i := 0; i < st.NumFields(); i++ {
			if st.Field(i).Name() == name {
				out := Val{T: st.Field(i).Type()}
				pre := "." + name
				for j, c := range all {
					if c.suffix == pre || strings.HasPrefix(c.suffix, pre+".") || strings.HasPrefix(c.suffix, pre+"!") {
						out.C = append(out.C, v.C[j])
					}
				}
				return out
			}
		}
	}
	sfail("cannot select .%s from %s in %s", name, typeStr(v.T), x)
	return Val{}
}

func cur0(cur, orig types.Type) types.Type { return cur }

// rootAfter returns the struct type that owns the final (by-value) field path after following embedded pointers.
func rootAfter(t types.Type, idx []int) types.Type {
	root := t
	cur := t
	for k, i := range idx {
		s := cur.Underlying().(*types.Struct)
		f := s.Field(i)
		if k < len(idx)-1 {
			if fp, isPtr := f.Type().Underlying().(*types.Pointer); isPtr {
				cur = fp.Elem()
				root = cur
				continue
			}
			cur = f.Type()
		}
	}
	return root
}

func (e *SpecEnv) pkgFor(t types.Type) *types.Package {
	if n := namedOf(t); n != nil && n.Obj().Pkg() != nil {
		return n.Obj().Pkg()
	}
	return e.pkg
}

func (e *SpecEnv) index(x *EIndex) Val {
	v := e.eval(x.X)
	i := e.eval(x.I)
	switch t := v.T.Underlying().(type) {
	case *GhostMap:
		return Val{T: t.V, C: []string{sx("select", v.s(), e.coerce(i, t.K))}}
	case *GhostSet:
		return boolVal(sx("select", v.s(), e.coerce(i, t.E)))
	case *types.Slice:
		idx := e.lenAdd(v.C[1], e.asLen(i))
		cs := e.mode().comps(t.Elem())
		out := Val{T: t.Elem()}
		for _, c := range cs {
			k := e.fx.elemKey(t.Elem(), c)
			out.C = append(out.C, sx("select", sx("select", e.heapRead(k), v.C[0]), idx))
		}
		// elements of Go slices are well-typed values (ground reads only)
		if e.side != nil && !strings.Contains(idx, "q$") && !strings.Contains(v.C[0], "q$") {
			*e.side = append(*e.side, e.fx.typingFacts(out)...)
		}
		return out
	case *types.Map:
		_, vks, _, vcs := e.fx.mapKeys(t)
		out := Val{T: t.Elem()}
		for j := range vcs {
			out.C = append(out.C, sx("select", sx("select", e.heapRead(vks[j]), v.s()), e.coerce(i, t.Key())))
		}
		return out
	}
	sfail("cannot index %s in %s", typeStr(v.T), x)
	return Val{}
}

// coerce a spec value to the SMT sort of Go type t (literal adaptation in bv mode)
func (e *SpecEnv) coerce(v Val, t types.Type) string {
	if e.mode() == ModeBV {
		if b, _, ok := intInfo(t); ok && b > 0 {
			if lv, isLit := litVal(v.s()); isLit && !strings.HasPrefix(v.s(), "(_ bv") {
				return e.mode().num(lv, e.mode().intSort(t))
			}
			if vb, _, ok2 := intInfo(v.T); ok2 && vb != b && vb > 0 {
				return e.fx.ar.conv(v.s(), v.T, t, false)
			}
		}
	}
	return v.s()
}

func (e *SpecEnv) binary(x *EBinary) Val {
	switch x.Op {
	case "&&":
		return boolVal(and(e.boolTerm(x.X), e.boolTerm(x.Y)))
	case "||":
		return boolVal(or(e.boolTerm(x.X), e.boolTerm(x.Y)))
	case "==>":
		return boolVal(implies(e.boolTerm(x.X), e.boolTerm(x.Y)))
	case "<==>":
		return boolVal(eq(e.boolTerm(x.X), e.boolTerm(x.Y)))
	case "in":
		k := e.eval(x.X)
		s := e.eval(x.Y)
		switch t := s.T.Underlying().(type) {
		case *GhostSet:
			return boolVal(sx("select", s.s(), e.coerce(k, t.E)))
		case *types.Map:
			dom, _, _, _ := e.fx.mapKeys(t)
			return boolVal(sx("select", sx("select", e.heapRead(dom), s.s()), e.coerce(k, t.Key())))
		}
		sfail("`in` on %s", typeStr(s.T))
	}
	a := e.eval(x.X)
	b := e.eval(x.Y)
	switch x.Op {
	case "==", "!=":
		a, b = e.unify(a, b)
		if isNilVal(a) && !isNilVal(b) {
			a = Val{T: b.T, C: e.fx.zeroVal(b.T)}
		} else if isNilVal(b) && !isNilVal(a) {
			b = Val{T: a.T, C: e.fx.zeroVal(a.T)}
		}
		if len(a.C) != len(b.C) {
			sfail("comparing values of different shape in %s (%s vs %s)", x, typeStr(a.T), typeStr(b.T))
		}
		var parts []string
		for i := range a.C {
			parts = append(parts, eq(a.C[i], b.C[i]))
		}
		r := and(parts...)
		if x.Op == "!=" {
			r = not(r)
		}
		return boolVal(r)
	case "<", "<=", ">", ">=":
		a, b = e.unify(a, b)
		t := a.T
		if e.mode() == ModeInt {
			t = MathInt
		}
		return boolVal(e.fx.ar.cmp(x.Op, a.s(), b.s(), t))
	}
	// arithmetic
	if gs, ok := a.T.Underlying().(*GhostSet); ok && x.Op == "+" {
		// set union with singleton {x} is written add(s, x); s + t unsupported
		_ = gs
		sfail("use setadd(s, x)")
	}
	if a.T == MathInt && b.T == MathInt {
		if av, ok := litVal(a.s()); ok {
			if bv, ok2 := litVal(b.s()); ok2 {
				var r *big.Int
				switch x.Op {
				case "+":
					r = new(big.Int).Add(av, bv)
				case "-":
					r = new(big.Int).Sub(av, bv)
				case "*":
					r = new(big.Int).Mul(av, bv)
				case "<<":
					r = new(big.Int).Lsh(av, uint(bv.Int64()))
				case "/":
					if bv.Sign() != 0 {
						r = new(big.Int).Quo(av, bv)
					}
				}
				if r != nil {
					return Val{T: MathInt, C: []string{e.mode().num(r, "Int")}}
				}
			}
		}
	}
	a, b = e.unify(a, b)
	if isReal(a.T) || isReal(b.T) {
		ar, br := e.toReal(a), e.toReal(b)
		return Val{T: types.Typ[types.Float64], C: []string{sx(x.Op, ar, br)}}
	}
	rt := a.T
	math := e.mode() == ModeInt
	if math {
		rt = MathInt
	}
	var yt types.Type = b.T
	r, side := e.fx.ar.binop(x.Op, a.s(), b.s(), a.T, yt, math)
	if e.side != nil {
		*e.side = append(*e.side, side...)
	}
	return Val{T: rt, C: []string{r}}
}

func (e *SpecEnv) toReal(v Val) string {
	if isReal(v.T) {
		return v.s()
	}
	if lv, ok := litVal(v.s()); ok {
		return e.mode().num(lv, "Real")
	}
	return sx("to_real", v.s())
}

// unify adapts literals / widths in bv mode.
func (e *SpecEnv) unify(a, b Val) (Val, Val) {
	if e.mode() != ModeBV {
		return a, b
	}
	ab, _, aok := intInfo(a.T)
	bb, _, bok := intInfo(b.T)
	if !aok || !bok {
		return a, b
	}
	if ab == 0 && bb > 0 {
		lv, ok := litVal(a.s())
		if !ok {
			sfail("non-literal mathematical integer mixed with bit-vector")
		}
		return Val{T: b.T, C: []string{e.mode().num(lv, e.mode().intSort(b.T))}}, b
	}
	if bb == 0 && ab > 0 {
		lv, ok := litVal(b.s())
		if !ok {
			sfail("non-literal mathematical integer mixed with bit-vector")
		}
		return a, Val{T: a.T, C: []string{e.mode().num(lv, e.mode().intSort(a.T))}}
	}
	if ab != bb {
		sfail("bit-vector width mismatch %s vs %s", typeStr(a.T), typeStr(b.T))
	}
	return a, b
}

func (e *SpecEnv) quant(x *EQuant) Val {
	vars := map[string]Val{}
	var decl []string
	var guards []string
	for _, b := range x.Vars {
		t := e.fx.eng.resolveType(e.pkg, b.Type)
		cs := e.mode().comps(t)
		if len(cs) != 1 {
			sfail("quantified variable %s of composite type %s", b.Name, b.Type)
		}
		e.fx.decls.n++
		name := fmt.Sprintf("q$%s!%d", b.Name, e.fx.decls.n)
		decl = append(decl, "("+name+" "+cs[0].sort+")")
		vt := t
		if e.mode() == ModeInt {
			if bb, _, ok := intInfo(t); ok && bb > 0 {
				if isPlainInt(t) {
					// `int` binders are mathematical in Int mode
				} else {
					guards = append(guards, e.fx.ar.rangeFact(name, t))
				}
				vt = MathInt
			}
		}
		vars[b.Name] = Val{T: vt, C: []string{name}}
	}
	// trigger re-basing: a trigger s[k] over a slice with a symbolic offset reads address (+ off k); patterns with
	// arithmetic are fragile (solvers normalise sums).  The bound variable is replaced by the address j = off + k, so
	// that the trigger becomes (select array j); the quantifier ranges over the same set (k = j - off).
	if e.mode() == ModeInt && len(x.Vars) == 1 && len(x.Triggers) == 1 && len(x.Triggers[0]) == 1 {
		if ix, ok := x.Triggers[0][0].(*EIndex); ok {
			if id, isID := ix.I.(*EIdent); isID && id.Name == x.Vars[0].Name && !mentionsIdent(ix.X, id.Name) {
				func() {
					defer func() { recover() }()
					sv := e.eval(ix.X)
					if _, isSlice := sv.T.Underlying().(*types.Slice); isSlice && len(sv.C) == 4 && sv.C[1] != "0" {
						if _, isLit := litVal(sv.C[1]); !isLit {
							old := vars[id.Name]
							vars[id.Name] = Val{T: old.T, C: []string{sx("-", old.C[0], sv.C[1])}}
						}
					}
				}()
			}
		}
	}
	ne := e.with(vars)
	var localSide []string
	if e.side != nil {
		ne.side = &localSide
	}
	body := ne.boolTerm(x.Body)
	// side facts about terms that mention the bound variables cannot leave the quantifier: dropped
	for _, f := range localSide {
		leak := false
		for _, v := range vars {
			if strings.Contains(f, v.C[0]) {
				leak = true
			}
		}
		if !leak && e.side != nil {
			*e.side = append(*e.side, f)
		}
	}
	g := and(guards...)
	if x.Forall {
		body = implies(g, body)
	} else {
		body = and(g, body)
	}
	var pats []string
	for _, tr := range x.Triggers {
		var ts []string
		okTrig := true
		for _, t := range tr {
			tv := ne.eval(t)
			for _, c := range tv.C {
				if !(strings.HasPrefix(c, "(select ") || strings.HasPrefix(c, "(pf$") || strings.HasPrefix(c, "(sprintf$") || strings.HasPrefix(c, "(uf$")) {
					okTrig = false
				}
				if strings.Contains(c, "(ite ") || strings.Contains(c, "(and ") || strings.Contains(c, "(not ") || strings.Contains(c, "(or ") || strings.Contains(c, "(= ") {
					okTrig = false // boolean structure is not allowed inside patterns
				}
			}
			ts = append(ts, tv.C...)
		}
		if !okTrig {
			continue // not a legal pattern in this context (e.g. a revealed definition)
		}
		if len(tr) == 1 && len(ts) > 1 {
			// one trigger term with several components (a slice, an interface ...): each component alone triggers -
			// a goal that talks about one component must still be able to instantiate
			for _, c := range ts {
				pats = append(pats, ":pattern ("+c+")")
			}
			continue
		}
		pats = append(pats, ":pattern ("+strings.Join(ts, " ")+")")
	}
	q := "exists"
	if x.Forall {
		q = "forall"
	}
	if len(pats) > 0 {
		body = "(! " + body + " " + strings.Join(pats, " ") + ")"
	}
	return boolVal("(" + q + " (" + strings.Join(decl, " ") + ") " + body + ")")
}

func isPlainInt(t types.Type) bool {
	b, ok := t.(*types.Basic)
	return ok && b.Kind() == types.Int
}

func (e *SpecEnv) call(x *ECall) Val {
	// method call / pure method
	if s, ok := x.Fun.(*ESel); ok {
		// package-qualified pure function or type conversion?
		if id, ok2 := s.X.(*EIdent); ok2 {
			if _, isVar := e.vars[id.Name]; !isVar && e.pkg != nil {
				for _, imp := range e.pkg.Imports() {
					if imp.Name() == id.Name {
						if tn, ok3 := imp.Scope().Lookup(s.Name).(*types.TypeName); ok3 {
							return e.convert(tn.Type(), x.Args)
						}
						if pf := e.fx.eng.pureFunc(imp.Path(), s.Name); pf != nil {
							return e.applyPure(pf, nil, x.Args)
						}
						sfail("unknown function %s.%s", id.Name, s.Name)
					}
				}
			}
		}
		recv := e.eval(s.X)
		nt := namedOf(recv.T)
		if nt == nil {
			sfail("method call on unnamed type in %s", x)
		}
		pf := e.fx.eng.pureFunc(nt.Obj().Pkg().Path(), nt.Obj().Name()+"."+s.Name)
		if pf == nil {
			// invariant by name: b.inv_ring() ?
			if inv := e.fx.eng.invariantByName(nt, s.Name); inv != nil {
				ne := e.with(map[string]Val{inv.Recv: recv})
				ne.pkg = nt.Obj().Pkg()
				return boolVal(ne.boolTerm(inv.E))
			}
			if s.Name == "inv" {
				// conjunction of all invariants of the type
				var parts []string
				for _, inv := range e.fx.eng.invariantsOf(nt) {
					ne := e.with(map[string]Val{inv.Recv: recv})
					ne.pkg = nt.Obj().Pkg()
					parts = append(parts, ne.boolTerm(inv.E))
				}
				return boolVal(and(parts...))
			}
			sfail("no pure method %s.%s", nt.Obj().Name(), s.Name)
		}
		return e.applyPure(pf, &recv, x.Args)
	}
	id, ok := x.Fun.(*EIdent)
	if !ok {
		sfail("unsupported call %s", x)
	}
	switch id.Name {
	case "old":
		ne := *e
		ne.cur = e.old
		ne.inOld = true
		return ne.eval(x.Args[0])
	case "atlock":
		ne := *e
		if e.atlock != nil {
			ne.cur = e.atlock
		} else {
			ne.cur = e.old
		}
		return ne.eval(x.Args[0])
	case "ite":
		c := e.boolTerm(x.Args[0])
		a := e.eval(x.Args[1])
		b := e.eval(x.Args[2])
		a, b = e.unify(a, b)
		out := Val{T: a.T}
		if a.T == MathInt {
			out.T = b.T
		}
		for i := range a.C {
			out.C = append(out.C, ite(c, a.C[i], b.C[i]))
		}
		return out
	case "len", "cap":
		v := e.eval(x.Args[0])
		switch t := v.T.Underlying().(type) {
		case *types.Slice:
			i := 2
			if id.Name == "cap" {
				i = 3
			}
			rt := types.Type(types.Typ[types.Int])
			if e.mode() == ModeInt {
				rt = MathInt
			}
			return Val{T: rt, C: []string{v.C[i]}}
		case *types.Map:
			rt := MathInt
			k := HeapKey{"ML$" + sanitize(typeStr(t)), "(Array Int Int)"}
			return Val{T: rt, C: []string{sx("select", e.heapRead(k), v.s())}}
		case *types.Chan:
			k := HeapKey{"CH$len", "(Array Int Int)"}
			if id.Name == "cap" {
				k = HeapKey{"CH$cap", "(Array Int Int)"}
			}
			return Val{T: MathInt, C: []string{sx("select", e.heapRead(k), v.s())}}
		}
		sfail("len of %s", typeStr(v.T))
	case "min", "max":
		a := e.eval(x.Args[0])
		b := e.eval(x.Args[1])
		a, b = e.unify(a, b)
		op := "<="
		if id.Name == "max" {
			op = ">="
		}
		t := a.T
		if e.mode() == ModeInt {
			t = MathInt
		}
		return Val{T: a.T, C: []string{ite(e.fx.ar.cmp(op, a.s(), b.s(), t), a.s(), b.s())}}
	case "setadd":
		s := e.eval(x.Args[0])
		gs := s.T.Underlying().(*GhostSet)
		k := e.eval(x.Args[1])
		return Val{T: s.T, C: []string{sx("store", s.s(), e.coerce(k, gs.E), "true")}}
	case "setdel":
		s := e.eval(x.Args[0])
		gs := s.T.Underlying().(*GhostSet)
		k := e.eval(x.Args[1])
		return Val{T: s.T, C: []string{sx("store", s.s(), e.coerce(k, gs.E), "false")}}
	case "emptyset":
		t := e.fx.eng.resolveType(e.pkg, "set["+x.Args[0].String()+"]")
		cs := e.mode().comps(t)
		return Val{T: t, C: []string{"((as const " + cs[0].sort + ") false)"}}
	case "upd":
		m := e.eval(x.Args[0])
		gm := m.T.Underlying().(*GhostMap)
		k := e.eval(x.Args[1])
		v := e.eval(x.Args[2])
		return Val{T: m.T, C: []string{sx("store", m.s(), e.coerce(k, gm.K), e.coerce(v, gm.V))}}
	case "held":
		v := e.eval(x.Args[0])
		if v.L == nil {
			sfail("held(): not a mutex location")
		}
		if e.st == nil {
			sfail("held() outside a state")
		}
		if e.st.held[mutexKey(v.L)] != "" {
			return boolVal("true")
		}
		return boolVal("false")
	case "closed":
		v := e.eval(x.Args[0])
		k := HeapKey{"CH$closed", "(Array Int Bool)"}
		return boolVal(sx("select", e.heapRead(k), v.s()))
	case "oncedone":
		// oncedone(x.once): the sync.Once field of object x has run its function (one Once field per object is assumed)
		sel, ok := x.Args[0].(*ESel)
		if !ok {
			sfail("oncedone(obj.field)")
		}
		v := e.eval(sel.X)
		return boolVal(sx("select", e.heapRead(HeapKey{"ONCE$done", "(Array Int Bool)"}), v.s()))
	case "calls":
		// calls(name): how many calls of the named function / method this execution path has made so far
		id2, ok := x.Args[0].(*EIdent)
		if !ok || e.st == nil {
			sfail("calls(name) needs a function name")
		}
		return Val{T: MathInt, C: []string{fmt.Sprintf("%d", e.st.callN[id2.Name])}}
	case "sent", "recvd":
		// sent(ch) / recvd(ch): number of completed sends / receives on the channel (message log model)
		v := e.eval(x.Args[0])
		k := chSentN
		if id.Name == "recvd" {
			k = chRecvN
		}
		return Val{T: MathInt, C: []string{sx("select", e.heapRead(k), v.s())}}
	case "lastsendon":
		// index of this function's latest send on the given channel
		v := e.eval(x.Args[0])
		return Val{T: MathInt, C: []string{sx("select", e.heapRead(chLastOn), v.s())}}
	case "lastsend", "lastrecv":
		// index (in the channel's message log) of this function's latest send / receive
		k := chLastSend
		if id.Name == "lastrecv" {
			k = chLastRecv
		}
		return Val{T: MathInt, C: []string{e.heapRead(k)}}
	case "msg":
		// msg(ch, k): the k-th value ever sent on ch
		v := e.eval(x.Args[0])
		ct, ok := v.T.Underlying().(*types.Chan)
		if !ok {
			sfail("msg() of non-channel")
		}
		idx := e.eval(x.Args[1])
		out := Val{T: ct.Elem()}
		for _, c := range e.mode().comps(ct.Elem()) {
			out.C = append(out.C, sx("select", sx("select", e.heapRead(chMsgKey(ct.Elem(), c)), v.s()), idx.s()))
		}
		return out
	case "typeis":
		// typeis(x, T): dynamic type of interface x is T
		v := e.eval(x.Args[0])
		t := e.fx.eng.resolveType(e.pkg, x.Args[1].String())
		return boolVal(eq(v.C[0], e.fx.eng.typeTag(t)))
	case "ptr":
		// ptr(x): data pointer of interface x as a reference of type given; for a value type the boxed value itself
		v := e.eval(x.Args[0])
		t := e.fx.eng.resolveType(e.pkg, x.Args[1].String())
		if cs := e.mode().comps(t); !(len(cs) == 1 && cs[0].kind == "ref") {
			return e.boxed(t, v.C[len(v.C)-1])
		}
		return Val{T: t, C: []string{v.C[len(v.C)-1]}}
	case "tag":
		// tag(x): the dynamic type of interface x as a number (0 for nil)
		v := e.eval(x.Args[0])
		if len(v.C) != 2 {
			sfail("tag() of non-interface")
		}
		return Val{T: MathInt, C: []string{v.C[0]}}
	case "tagof":
		// tagof(T): the number standing for dynamic type T
		t := e.fx.eng.resolveType(e.pkg, x.Args[0].String())
		return Val{T: MathInt, C: []string{e.fx.eng.typeTag(t)}}
	case "box":
		// box(r, T): the value of type T stored in the interface box r (r: a ref(...) of an interface holding a T)
		v := e.eval(x.Args[0])
		t := e.fx.eng.resolveType(e.pkg, x.Args[1].String())
		return e.boxed(t, v.C[len(v.C)-1])
	case "sprintf":
		// sprintf("format", args...): the same uninterpreted function the engine uses for fmt.Sprintf
		fs, ok := x.Args[0].(*EStr)
		if !ok {
			sfail("sprintf needs a literal format")
		}
		var terms, sorts []string
		for _, a := range x.Args[1:] {
			v := e.eval(a)
			t, srt := e.fx.sprintfArg(v)
			if v.T == MathInt {
				t, srt = []string{v.s()}, []string{"Int"}
			}
			terms = append(terms, t...)
			sorts = append(sorts, srt...)
		}
		name := e.fx.sprintfName(fs.V, sorts)
		e.fx.decls.declareFun(name, sorts, "Str")
		return Val{T: types.Typ[types.String], C: []string{sx(name, terms...)}}
	case "ref":
		// ref(x): the object an interface value points to (its data word)
		v := e.eval(x.Args[0])
		if len(v.C) == 2 {
			return Val{T: MathInt, C: []string{v.C[1]}}
		}
		return Val{T: MathInt, C: []string{v.C[0]}}
	case "base":
		v := e.eval(x.Args[0])
		return Val{T: MathInt, C: []string{v.C[0]}}
	case "off":
		v := e.eval(x.Args[0])
		if len(v.C) != 4 {
			sfail("off() of non-slice")
		}
		rt := types.Type(types.Typ[types.Int])
		if e.mode() == ModeInt {
			rt = MathInt
		}
		return Val{T: rt, C: []string{v.C[1]}}
	case "exclusive":
		// ownership transfer: at a call site the object must have been allocated by the calling function itself
		// (nobody outside can hold a reference to it); as an assumed precondition it carries no information
		if e.atEntry {
			return boolVal("true")
		}
		v := e.eval(x.Args[0])
		return boolVal(sx(">", v.C[0], e.fx.entryTop))
	case "allocated":
		// the reference denotes an object that exists in the state the expression is evaluated in (or nil)
		v := e.eval(x.Args[0])
		top := e.cur["alloc$top"]
		if top == "" {
			sfail("allocated() outside a state")
		}
		return boolVal(and(sx("<=", "0", v.C[0]), sx("<=", v.C[0], top)))
	case "fresh":
		v := e.eval(x.Args[0])
		// allocated after function entry
		et := e.entryTop
		if et == "" {
			et = e.fx.entryTop
		}
		return boolVal(sx(">", v.C[0], et))
	}
	// conversion to a basic / named type?
	if t := e.fx.eng.tryResolveType(e.pkg, id.Name); t != nil {
		return e.convert(t, x.Args)
	}
	// pure function of this package
	if e.pkg != nil {
		if pf := e.fx.eng.pureFunc(e.pkg.Path(), id.Name); pf != nil {
			return e.applyPure(pf, nil, x.Args)
		}
	}
	// shared (standard-library model) specification functions
	if pf := e.fx.eng.pureFunc("std", id.Name); pf != nil {
		return e.applyPure(pf, nil, x.Args)
	}
	sfail("unknown function %q in %s", id.Name, x)
	return Val{}
}

func (e *SpecEnv) convert(t types.Type, args []Expr) Val {
	if len(args) != 1 {
		sfail("conversion needs one argument")
	}
	v := e.eval(args[0])
	if _, _, ok := intInfo(t); ok {
		if e.mode() == ModeInt {
			// mathematical: conversions are identity in specifications
			if isReal(v.T) {
				return Val{T: MathInt, C: []string{sx("to_int", v.s())}}
			}
			return Val{T: MathInt, C: v.C}
		}
		if lv, isLit := litVal(v.s()); isLit && !strings.HasPrefix(v.s(), "(_ bv") {
			return Val{T: t, C: []string{e.mode().num(lv, e.mode().intSort(t))}}
		}
		return Val{T: t, C: []string{e.fx.ar.conv(v.s(), v.T, t, false)}}
	}
	if isReal(t) {
		return Val{T: t, C: []string{e.toReal(v)}}
	}
	return Val{T: t, C: v.C}
}

func (e *SpecEnv) applyPure(pf *PureFunc, recv *Val, args []Expr) Val {
	if e.depth > 40 {
		sfail("pure function recursion too deep at %s", pf.Key)
	}
	var argv []Val
	for _, a := range args {
		argv = append(argv, e.eval(a))
	}
	if len(argv) != len(pf.Params) {
		sfail("pure %s: %d args, want %d", pf.Key, len(argv), len(pf.Params))
	}
	pkg := e.fx.eng.typesPkg(pf.Pkg)
	if pf.Uninterpreted {
		var terms, sorts []string
		for i, a := range argv {
			pt := e.fx.eng.resolveType(pkg, pf.Params[i].Type)
			cs := e.mode().comps(pt)
			if len(cs) != 1 {
				sfail("uf %s: composite parameter", pf.Key)
			}
			terms = append(terms, e.coerce(a, pt))
			sorts = append(sorts, cs[0].sort)
		}
		rt := e.fx.eng.resolveType(pkg, pf.Result)
		rs := e.mode().comps(rt)[0].sort
		name := "uf$" + sanitize(lastSlash(pf.Pkg)+"."+pf.Key)
		e.fx.decls.declareFun(name, sorts, rs)
		if rt == nil {
			rt = BoolT
		}
		return Val{T: rt, C: []string{sx(name, terms...)}}
	}
	if pf.Opaque && !e.reveal[pf.Key] && !e.reveal[lastDot(pf.Key)] {
		return e.applyOpaque(pf, pkg, recv, argv)
	}
	vars := map[string]Val{}
	if recv != nil && pf.Recv != "" {
		vars[pf.Recv] = *recv
	}
	for i, p := range pf.Params {
		av := argv[i]
		// adapt literals to declared parameter type in bv mode
		pt := e.fx.eng.resolveType(pkg, p.Type)
		if e.mode() == ModeBV {
			if b, _, ok := intInfo(pt); ok && b > 0 && len(av.C) == 1 {
				av = Val{T: pt, C: []string{e.coerce(av, pt)}}
			}
		}
		vars[p.Name] = av
	}
	ne := &SpecEnv{fx: e.fx, pkg: pkg, vars: vars, cur: e.cur, old: e.old, atlock: e.atlock, st: e.st, side: e.side, reads: e.reads, depth: e.depth + 1, reveal: e.reveal}
	return ne.eval(pf.Body)
}

func lastDot(s string) string {
	if i := strings.LastIndex(s, "."); i >= 0 {
		return s[i+1:]
	}
	return s
}

// applyOpaque: uninterpreted function over the heap versions the definition reads.
func (e *SpecEnv) applyOpaque(pf *PureFunc, pkg *types.Package, recv *Val, argv []Val) Val {
	fx := e.fx
	info := fx.opaqueInfo(pf, pkg, recv, argv)
	var args []string
	for _, k := range info.reads {
		args = append(args, e.heapRead(k))
	}
	if recv != nil {
		args = append(args, recv.C...)
	}
	for i, a := range argv {
		pt := fx.eng.resolveType(pkg, pf.Params[i].Type)
		if len(a.C) == 1 {
			args = append(args, e.coerce(a, pt))
		} else {
			args = append(args, a.C...)
		}
	}
	return Val{T: info.resT, C: []string{sx(info.name, args...)}}
}

type opaqueInfo struct {
	name  string
	reads []HeapKey
	resT  types.Type
}

func (fx *FuncCtx) opaqueInfo(pf *PureFunc, pkg *types.Package, recv *Val, argv []Val) *opaqueInfo {
	id := pf.Pkg + "." + pf.Key
	if oi, ok := fx.opaques[id]; ok {
		return oi
	}
	// evaluate the body once with symbolic dummies to learn the heap keys it reads
	vars := map[string]Val{}
	var argSorts []string
	if recv != nil {
		d := Val{T: recv.T}
		for i, c := range fx.mode.comps(recv.T) {
			d.C = append(d.C, fx.decls.declare(fmt.Sprintf("dummy$%s$r%d", sanitize(pf.Key), i), c.sort))
		}
		vars[pf.Recv] = d
	}
	for i, p := range pf.Params {
		pt := fx.eng.resolveType(pkg, p.Type)
		d := Val{T: pt}
		if fx.mode == ModeInt {
			if b, _, ok := intInfo(pt); ok && b > 0 {
				d.T = MathInt
			}
		}
		for j, c := range fx.mode.comps(pt) {
			d.C = append(d.C, fx.decls.declare(fmt.Sprintf("dummy$%s$a%d_%d", sanitize(pf.Key), i, j), c.sort))
		}
		vars[p.Name] = d
	}
	reads := map[string]HeapKey{}
	var side []string
	ne := &SpecEnv{fx: fx, pkg: pkg, vars: vars, cur: map[string]string{}, old: map[string]string{}, reads: reads, side: &side, reveal: map[string]bool{pf.Key: true, lastDot(pf.Key): true}}
	res := ne.eval(pf.Body)
	oi := &opaqueInfo{name: "pf$" + sanitize(lastSlash(pf.Pkg)+"."+pf.Key), resT: res.T}
	var ks []string
	for k := range reads {
		ks = append(ks, k)
	}
	sort.Strings(ks)
	for _, k := range ks {
		oi.reads = append(oi.reads, reads[k])
		argSorts = append(argSorts, reads[k].Sort)
	}
	if recv != nil {
		for _, c := range fx.mode.comps(recv.T) {
			argSorts = append(argSorts, c.sort)
		}
	}
	for _, p := range pf.Params {
		pt := fx.eng.resolveType(pkg, p.Type)
		for _, c := range fx.mode.comps(pt) {
			argSorts = append(argSorts, c.sort)
		}
	}
	rcs := fx.mode.comps(res.T)
	rs := "Int"
	if len(rcs) == 1 {
		rs = rcs[0].sort
	}
	if res.T == BoolT {
		rs = "Bool"
	}
	fx.decls.declareFun(oi.name, argSorts, rs)
	fx.opaques[id] = oi
	fx.opaqueUsed[id] = true
	return oi
}

func lastSlash(s string) string {
	if i := strings.LastIndex(s, "/"); i >= 0 {
		return s[i+1:]
	}
	return s
}

var _ = ssa.NaiveForm

func isNilVal(v Val) bool {
	b, ok := v.T.(*types.Basic)
	return ok && b.Kind() == types.UntypedNil
}
