package main

import (
	"fmt"
	"go/token"
	"go/types"

	"golang.org/x/tools/go/ssa"
)

// interface method contracts: `func (c Chunk) Clone() (r Chunk)` in the interface's package,
// or `extern func (e error) Error() (s string)`.
func (fx *FuncCtx) ifaceContract(cc *ssa.CallCommon) *FuncContract {
	nt := namedOf(cc.Value.Type())
	name := cc.Method.Name()
	if nt != nil && nt.Obj().Pkg() != nil {
		if pc := fx.eng.contracts[nt.Obj().Pkg().Path()]; pc != nil {
			if fc := pc.Funcs[nt.Obj().Name()+"."+name]; fc != nil {
				return fc
			}
		}
		if fc := fx.eng.externByName(nt.Obj().Pkg().Name(), nt.Obj().Name()+"."+name); fc != nil {
			return fc
		}
	}
	if nt != nil && nt.Obj().Pkg() == nil { // error
		if fc := fx.eng.externByName("builtin", nt.Obj().Name()+"."+name); fc != nil {
			return fc
		}
	}
	return nil
}

func (fx *FuncCtx) invoke(st *State, cc *ssa.CallCommon, recv Val, args []Val, rt types.Type, pos token.Pos) Val {
	fc := fx.ifaceContract(cc)
	if fc == nil {
		fx.failf("interface call %s.%s without contract", typeStr(cc.Value.Type()), cc.Method.Name())
	}
	fx.oblige(st, "safe", "nil", not(eq(recv.C[0], "0")), pos, "method call on nil interface")
	st.assume(not(eq(recv.C[0], "0")))
	all := append([]Val{recv}, args...)
	// build a pseudo callee-less application
	name := cc.Method.Name()
	st.callN[name]++
	site := fmt.Sprintf("%s#%d", name, st.callN[name])
	fx.trusted[fmt.Sprintf("interface contract assumed for every implementation: %s", fc.Key)] = true
	vars := map[string]Val{}
	if fc.Recv != "" {
		vars[fc.Recv] = recv
	}
	for i, n := range fc.Params {
		if i < len(args) && n != "_" {
			vars[n] = args[i]
		}
	}
	_ = all
	pkg := fx.eng.typesPkg(fc.Pkg)
	env := &SpecEnv{fx: fx, pkg: pkg, vars: vars, cur: st.heap, old: st.heap, atlock: st.atlock, st: st, reveal: fx.reveal}
	genv := fx.localsEnv(st, st.heap, map[string]string{})
	fx.runGhost(st, "before "+site, genv, pos)
	env.cur, env.old = st.heap, st.heap
	for i, rq := range fc.Requires {
		label := rq.Name
		if label == "" {
			label = fmt.Sprintf("#%d", i+1)
		}
		t := env.boolTerm(rq.E)
		fx.oblige(st, "pre", site+"."+label, t, pos, fc.Key+" requires "+rq.Src)
		st.assume(t)
	}
	old := copyMap(st.heap)
	topBefore := st.top()
	if !fc.Pure {
		fx.havocModifies(st, env, fc)
		fx.bumpTop(st)
	}
	var res Val
	if rt != nil {
		if fc.Pure {
			fx.bumpTop(st) // even an observer may return a freshly allocated object
		}
		res = fx.freshVal("r$"+name, rt)
		fx.assumeTyping(st, res)
	}
	rs := res.Tup
	if rt != nil && res.Tup == nil {
		rs = []Val{res}
	}
	env2 := &SpecEnv{fx: fx, pkg: pkg, vars: map[string]Val{}, cur: st.heap, old: old, atlock: st.atlock, st: st, reveal: fx.reveal, entryTop: topBefore}
	for k, v := range vars {
		env2.vars[k] = v
	}
	for i, n := range fc.Results {
		if i < len(rs) && n != "_" {
			env2.vars[n] = rs[i]
		}
	}
	for _, en := range fc.Ensures {
		var side []string
		env2.side = &side
		t := env2.boolTerm(en.E)
		for _, s := range side {
			st.assume(s)
		}
		st.assume(t)
	}
	genv = fx.localsEnv(st, st.heap, map[string]string{})
	if rt != nil && res.Tup == nil {
		genv.vars["result$"] = res
	}
	fx.runGhost(st, "after "+site, genv, pos)
	return res
}

// ---------------------------------------------------------------- maps

func (fx *FuncCtx) execLookup(st *State, in *ssa.Lookup) {
	x := fx.val(st, in.X)
	mt, ok := in.X.Type().Underlying().(*types.Map)
	if !ok {
		fx.failf("string index")
	}
	k := fx.val(st, in.Index)
	dom, vals, _, vcs := fx.mapKeys(mt)
	m := x.s()
	present := sx("select", sx("select", fx.heapGet(st.heap, dom), m), k.s())
	// a nil map reads as empty
	present = and(not(eq(m, "0")), present)
	out := Val{T: mt.Elem()}
	zero := fx.zeroVal(mt.Elem())
	for j := range vcs {
		out.C = append(out.C, ite(present, sx("select", sx("select", fx.heapGet(st.heap, vals[j]), m), k.s()), zero[j]))
	}
	if in.CommaOk {
		// two paths instead of ite-values: the looked-up value stays a plain select term (matchable by triggers)
		stY, stN := st.clone(), st.clone()
		stY.assume(present)
		hit := Val{T: mt.Elem()}
		for j := range vcs {
			hit.C = append(hit.C, sx("select", sx("select", fx.heapGet(st.heap, vals[j]), m), k.s()))
		}
		fx.assumeTyping(stY, hit)
		fx.set(stY, in, Val{T: in.Type(), Tup: []Val{hit, {T: BoolT, C: []string{"true"}}}})
		stN.assume(not(present))
		fx.set(stN, in, Val{T: in.Type(), Tup: []Val{{T: mt.Elem(), C: zero}, {T: BoolT, C: []string{"false"}}}})
		fx.forkAfter(st, in, []*State{stY, stN})
		return
	}
	fx.assumeTyping(st, out)
	fx.set(st, in, out)
}

func (fx *FuncCtx) execMapUpdate(st *State, in *ssa.MapUpdate) {
	x := fx.val(st, in.Map)
	mt := in.Map.Type().Underlying().(*types.Map)
	k := fx.val(st, in.Key)
	v := fx.adapt(fx.val(st, in.Value), mt.Elem())
	dom, vals, _, _ := fx.mapKeys(mt)
	m := x.s()
	fx.oblige(st, "safe", "nilmap", not(eq(m, "0")), in.Pos(), "assignment to entry in nil map")
	st.assume(not(eq(m, "0")))
	d := fx.heapGet(st.heap, dom)
	lk := HeapKey{"ML$" + sanitize(typeStr(mt)), "(Array Int Int)"}
	ln := fx.heapGet(st.heap, lk)
	was := sx("select", sx("select", d, m), k.s())
	fx.heapSet(st, lk, sx("store", ln, m, ite(was, sx("select", ln, m), sx("+", sx("select", ln, m), "1"))))
	fx.heapSet(st, dom, sx("store", d, m, sx("store", sx("select", d, m), k.s(), "true")))
	for j, vk := range vals {
		cur := fx.heapGet(st.heap, vk)
		fx.heapSet(st, vk, sx("store", cur, m, sx("store", sx("select", cur, m), k.s(), v.C[j])))
	}
}

// ---------------------------------------------------------------- channels, select, go (minimal; extended in chan.go)

func (fx *FuncCtx) execSelect(st *State, in *ssa.Select) {
	fx.selectModel(st, in)
}

func (fx *FuncCtx) execSend(st *State, in *ssa.Send) {
	fx.sendModel(st, in)
}

func (fx *FuncCtx) execRecv(st *State, in *ssa.UnOp, ch Val) {
	fx.recvModel(st, in, ch)
}

func (fx *FuncCtx) execRange(st *State, in *ssa.Range) {
	fx.rangeModel(st, in)
}

func (fx *FuncCtx) execNext(st *State, in *ssa.Next) {
	fx.nextModel(st, in)
}

// fork/join: `go f(...)` of a function under contract checks f's precondition now and applies f's contract (modifies
// havocked, postcondition assumed) at the next sync.WaitGroup.Wait of the spawning function.  Trusted: the Add/Done/Wait
// pairing really makes Wait return after f ended, and the spawning function does not touch f's modifies set in between.
func (fx *FuncCtx) execGo(st *State, in *ssa.Go) {
	cc := in.Common()
	if cc.IsInvoke() {
		fx.failf("go statement on an interface method")
	}
	fnv := fx.val(st, cc.Value)
	callee := cc.StaticCallee()
	if callee == nil {
		callee = fnv.Fn
	}
	if callee == nil {
		fx.failf("go statement with an unknown function value")
	}
	fc := fx.eng.contractOf(callee)
	if fc == nil {
		fx.failf("go %s: the goroutine's function needs a contract", fnKey(callee))
	}
	var args []Val
	for _, a := range cc.Args {
		args = append(args, fx.val(st, a))
	}
	env := fx.calleeEnv(st, callee, fc, fnv, args, st.heap, st.heap)
	for i, rq := range fc.Requires {
		label := rq.Name
		if label == "" {
			label = fmt.Sprintf("#%d", i+1)
		}
		var side []string
		env.side = &side
		t := env.boolTerm(rq.E)
		for _, sd := range side {
			st.assume(sd)
		}
		fx.oblige(st, "pre", "go:"+callee.Name()+"."+label, t, in.Pos(), fc.Key+" requires "+rq.Src)
	}
	st.spawned = append(st.spawned, spawnRec{fn: callee, fc: fc, fnv: fnv, args: args})
	fx.trusted["fork/join: the contract of a goroutine started with `go` is applied at the spawning function's next WaitGroup.Wait (Add/Done pairing and non-interference in between are not checked)"] = true
}

func (fx *FuncCtx) joinSpawned(st *State, pos token.Pos) {
	recs := st.spawned
	st.spawned = nil
	for _, r := range recs {
		fx.skipPre = true
		fx.applyContract(st, r.fn, r.fc, r.fnv, r.args, nil, pos)
		fx.skipPre = false
	}
}
