package main

import (
	"go/token"
	"fmt"
	"go/types"
	"os"
	"path/filepath"
	"sort"
	"strings"

	"golang.org/x/tools/go/packages"
	"golang.org/x/tools/go/ssa"
	"golang.org/x/tools/go/ssa/ssautil"
)

const modPath = "github.com/pion/transport/v3"

var verifRoot = "/verif"

type Engine struct {
	dropOptional map[string]bool // functions verified without their `invariant?` clauses (they turned out not to hold for this loop shape)
	renameTry map[string]map[string]string // function -> recovered renames of locals named by its contract
	repo      string
	prog      *ssa.Program
	pkgs      map[string]*packages.Package
	spkgs     map[string]*ssa.Package
	contracts map[string]*PkgContracts
	funcs     map[string]*ssa.Function // "pkgpath:Key" -> function
	typeTags  map[string]int
	tagTypes  []types.Type
	fnIDs     map[*ssa.Function]int
	globals   map[*types.Var]*ssa.Global
	tier      string
	timeoutS  int
	verbose   bool
	assumptions map[string]bool
	tagSuffix   string
	fmtIDs      map[string]int
	errGlobalTag map[string]string // dynamic type tag of such a global when init shows it
	funcGlobals map[string]bool // G$pkg.Name of function-typed globals set once (by init) to a function value: never nil
	errGlobals  map[string]bool // G$pkg.Name of interface-typed globals initialised once to a fresh non-nil value
}

func loadEngine(repo string, patterns []string, tags string) (*Engine, error) {
	cfg := &packages.Config{Mode: packages.LoadAllSyntax, Dir: repo, Fset: fsetGlobal, BuildFlags: []string{"-tags=" + tags},
		Env: append(os.Environ(), "GOFLAGS=-mod=mod", "GOPROXY=off", "GOSUMDB=off", "GOTOOLCHAIN=local")}
	pkgs, err := packages.Load(cfg, patterns...)
	if err != nil {
		return nil, err
	}
	var errs []string
	packages.Visit(pkgs, nil, func(p *packages.Package) {
		for _, e := range p.Errors {
			errs = append(errs, e.Error())
		}
	})
	if len(errs) > 0 {
		return nil, fmt.Errorf("package load errors:\n%s", strings.Join(errs, "\n"))
	}
	prog, _ := ssautil.AllPackages(pkgs, ssa.NaiveForm|ssa.GlobalDebug|ssa.InstantiateGenerics)
	prog.Build()
	suffix := ""
	if strings.Contains(tags, ",") {
		suffix = "@" + tags[strings.Index(tags, ",")+1:]
	}
	e := &Engine{tagSuffix: suffix, repo: repo, prog: prog, pkgs: map[string]*packages.Package{}, spkgs: map[string]*ssa.Package{}, contracts: map[string]*PkgContracts{},
		funcs: map[string]*ssa.Function{}, typeTags: map[string]int{}, fnIDs: map[*ssa.Function]int{}, globals: map[*types.Var]*ssa.Global{}, assumptions: map[string]bool{}}
	packages.Visit(pkgs, nil, func(p *packages.Package) {
		e.pkgs[p.PkgPath] = p
		sp := prog.Package(p.Types)
		if sp != nil {
			e.spkgs[p.PkgPath] = sp
			for _, m := range sp.Members {
				if g, ok := m.(*ssa.Global); ok {
					if v, ok2 := g.Object().(*types.Var); ok2 {
						e.globals[v] = g
					}
				}
			}
		}
	})
	// contracts for packages of the module
	for path, p := range e.pkgs {
		if !strings.HasPrefix(path, modPath) {
			continue
		}
		dir := filepath.Join(repo, strings.TrimPrefix(strings.TrimPrefix(path, modPath), "/"))
		_ = p
		pc, err := loadContracts(path, dir)
		if err != nil {
			return nil, err
		}
		e.contracts[path] = pc
	}
	// trusted contracts of standard-library functions
	if verifRoot != "" {
		pc, err := loadContractsFile("std", filepath.Join(verifRoot, "contracts"), filepath.Join(verifRoot, "contracts", "std_contracts.go"))
		if err != nil {
			return nil, err
		}
		e.contracts["std"] = pc
	}
	// index functions of module packages
	for path, sp := range e.spkgs {
		if !strings.HasPrefix(path, modPath) {
			continue
		}
		for _, m := range sp.Members {
			switch m := m.(type) {
			case *ssa.Function:
				e.indexFn(path, m)
			case *ssa.Type:
				for _, t := range []types.Type{m.Type(), types.NewPointer(m.Type())} {
					ms := prog.MethodSets.MethodSet(t)
					for i := 0; i < ms.Len(); i++ {
						if fn := prog.MethodValue(ms.At(i)); fn != nil && fn.Pkg == sp && fn.Synthetic == "" {
							e.indexFn(path, fn)
						}
					}
				}
			}
		}
	}
	e.scanErrGlobals()
	return e, nil
}

func fnKey(fn *ssa.Function) string {
	if fn.Parent() != nil {
		pk := fnKey(fn.Parent())
		// fn.Name() is like "Check$1"; parent key like "T.Check"
		if i := strings.LastIndex(pk, "."); i >= 0 {
			return pk[:i+1] + fn.Name()
		}
		return fn.Name()
	}
	if fn.Signature.Recv() != nil {
		if n := namedOf(fn.Signature.Recv().Type()); n != nil {
			return n.Obj().Name() + "." + fn.Name()
		}
	}
	return fn.Name()
}

func (e *Engine) indexFn(path string, fn *ssa.Function) {
	k := path + ":" + fnKey(fn)
	if _, dup := e.funcs[k]; dup {
		return
	}
	e.funcs[k] = fn
	for _, a := range fn.AnonFuncs {
		e.indexFn(path, a)
	}
}

func (e *Engine) typesPkg(path string) *types.Package {
	if p, ok := e.pkgs[path]; ok {
		return p.Types
	}
	return nil
}

// contract of an ssa function (module-local or extern)
func (e *Engine) contractOf(fn *ssa.Function) *FuncContract {
	if fn == nil {
		return nil
	}
	if fn.Pkg != nil {
		if pc := e.contracts[fn.Pkg.Pkg.Path()]; pc != nil {
			if fc := pc.Funcs[fnKey(fn)]; fc != nil {
				return fc
			}
		}
	}
	return nil
}

// extern contract lookup: qualified name like "time.Now" or "time.Time.Add", searched in all contract files
func (e *Engine) externContract(fn *ssa.Function) *FuncContract {
	if fn == nil || fn.Pkg == nil {
		if fn != nil && fn.Object() != nil && fn.Object().Pkg() != nil {
			// instantiated / wrapper
			return e.externByName(fn.Object().Pkg().Name(), fnKey(fn))
		}
		return nil
	}
	return e.externByName(fn.Pkg.Pkg.Name(), fnKey(fn))
}

func (e *Engine) externByName(pkgName, key string) *FuncContract {
	q := pkgName + "." + key
	for _, path := range sortedKeys(e.contracts) {
		pc := e.contracts[path]
		if fc := pc.Funcs[q]; fc != nil && fc.Extern {
			return fc
		}
	}
	return nil
}

type ghostFieldInfo struct {
	Name string
	T    types.Type
}

func (e *Engine) ghostField(nt *types.Named, name string) (ghostFieldInfo, bool) {
	if nt.Obj().Pkg() == nil {
		return ghostFieldInfo{}, false
	}
	pc := e.contracts[nt.Obj().Pkg().Path()]
	if pc == nil {
		return ghostFieldInfo{}, false
	}
	for _, gf := range pc.Ghosts[nt.Obj().Name()] {
		if gf.Name == name {
			return ghostFieldInfo{name, e.resolveType(nt.Obj().Pkg(), gf.GTyp)}, true
		}
	}
	return ghostFieldInfo{}, false
}

func (e *Engine) ghostFieldsOf(nt *types.Named) []ghostFieldInfo {
	if nt.Obj().Pkg() == nil {
		return nil
	}
	pc := e.contracts[nt.Obj().Pkg().Path()]
	if pc == nil {
		return nil
	}
	var out []ghostFieldInfo
	for _, gf := range pc.Ghosts[nt.Obj().Name()] {
		out = append(out, ghostFieldInfo{gf.Name, e.resolveType(nt.Obj().Pkg(), gf.GTyp)})
	}
	return out
}

type ghostGlobalInfo struct {
	Name string
	T    types.Type
}

func (e *Engine) ghostGlobal(pkg *types.Package, name string) (ghostGlobalInfo, bool) {
	for _, path := range sortedKeys(e.contracts) {
		pc := e.contracts[path]
		for _, g := range pc.GhostGlobals {
			if g.Name == name {
				return ghostGlobalInfo{name, e.resolveType(e.typesPkg(path), g.GTyp)}, true
			}
		}
	}
	return ghostGlobalInfo{}, false
}

func (e *Engine) invariantsOf(nt *types.Named) []*Invariant {
	if nt.Obj().Pkg() == nil {
		return nil
	}
	pc := e.contracts[nt.Obj().Pkg().Path()]
	if pc == nil {
		return nil
	}
	return pc.Invs[nt.Obj().Name()]
}

func (e *Engine) reliesOf(nt *types.Named) []*Invariant {
	if nt == nil || nt.Obj().Pkg() == nil {
		return nil
	}
	pc := e.contracts[nt.Obj().Pkg().Path()]
	if pc == nil {
		return nil
	}
	return pc.Relies[nt.Obj().Name()]
}

func (e *Engine) invariantByName(nt *types.Named, name string) *Invariant {
	for _, inv := range e.invariantsOf(nt) {
		if inv.Name == name {
			return inv
		}
	}
	return nil
}

func (e *Engine) monitorOf(nt *types.Named) *MonitorDecl {
	if nt == nil || nt.Obj().Pkg() == nil {
		return nil
	}
	pc := e.contracts[nt.Obj().Pkg().Path()]
	if pc == nil {
		return nil
	}
	return pc.Monitors[nt.Obj().Name()]
}

func (e *Engine) fieldClass(nt *types.Named, field string) (string, string) {
	if nt == nil || nt.Obj().Pkg() == nil {
		return "", ""
	}
	pc := e.contracts[nt.Obj().Pkg().Path()]
	if pc == nil {
		return "", ""
	}
	for _, fd := range pc.Fields {
		if fd.Type == nt.Obj().Name() && fd.Name == field {
			return fd.Class, fd.Arg
		}
	}
	return "", ""
}

func (e *Engine) pureFunc(pkgPath, key string) *PureFunc {
	if pc := e.contracts[pkgPath]; pc != nil {
		if pf := pc.Pures[key]; pf != nil {
			return pf
		}
	}
	return nil
}

func (e *Engine) typeTag(t types.Type) string {
	s := types.TypeString(t, nil)
	if id, ok := e.typeTags[s]; ok {
		return fmt.Sprint(id)
	}
	id := len(e.typeTags) + 1
	e.typeTags[s] = id
	e.tagTypes = append(e.tagTypes, t)
	return fmt.Sprint(id)
}

func (e *Engine) fnID(fn *ssa.Function) string {
	if id, ok := e.fnIDs[fn]; ok {
		return fmt.Sprint(id)
	}
	id := len(e.fnIDs) + 1
	e.fnIDs[fn] = id
	return fmt.Sprint(id)
}

func (e *Engine) globalFor(v *types.Var) *ssa.Global { return e.globals[v] }

var basicByName = map[string]types.Type{
	"int": types.Typ[types.Int], "int8": types.Typ[types.Int8], "int16": types.Typ[types.Int16], "int32": types.Typ[types.Int32], "int64": types.Typ[types.Int64],
	"uint": types.Typ[types.Uint], "uint8": types.Typ[types.Uint8], "uint16": types.Typ[types.Uint16], "uint32": types.Typ[types.Uint32], "uint64": types.Typ[types.Uint64],
	"byte": types.Typ[types.Uint8], "bool": types.Typ[types.Bool], "string": types.Typ[types.String], "float64": types.Typ[types.Float64], "uintptr": types.Typ[types.Uintptr],
	"mathint": MathInt, "real": types.Typ[types.Float64],
}

func (e *Engine) tryResolveType(pkg *types.Package, s string) types.Type {
	defer func() { recover() }()
	if t, ok := basicByName[s]; ok {
		return t
	}
	if pkg != nil {
		if tn, ok := pkg.Scope().Lookup(s).(*types.TypeName); ok {
			return tn.Type()
		}
	}
	return nil
}

func (e *Engine) resolveType(pkg *types.Package, s string) types.Type {
	s = strings.TrimSpace(s)
	if t, ok := basicByName[s]; ok {
		return t
	}
	switch {
	case strings.HasPrefix(s, "*"):
		return types.NewPointer(e.resolveType(pkg, s[1:]))
	case strings.HasPrefix(s, "[]"):
		return types.NewSlice(e.resolveType(pkg, s[2:]))
	case strings.HasPrefix(s, "set["):
		return &GhostSet{E: e.resolveType(pkg, s[4:len(s)-1])}
	case strings.HasPrefix(s, "map["):
		// ghost map[K]V
		d := 0
		for i := 3; i < len(s); i++ {
			if s[i] == '[' {
				d++
			} else if s[i] == ']' {
				d--
				if d == 0 {
					return &GhostMap{K: e.resolveType(pkg, s[4:i]), V: e.resolveType(pkg, s[i+1:])}
				}
			}
		}
	}
	if i := strings.Index(s, "."); i >= 0 && pkg != nil {
		for _, imp := range pkg.Imports() {
			if imp.Name() == s[:i] {
				if tn, ok := imp.Scope().Lookup(s[i+1:]).(*types.TypeName); ok {
					return tn.Type()
				}
			}
		}
		// any loaded package by name
		for _, p := range e.pkgs {
			if p.Types.Name() == s[:i] {
				if tn, ok := p.Types.Scope().Lookup(s[i+1:]).(*types.TypeName); ok {
					return tn.Type()
				}
			}
		}
	}
	if pkg != nil {
		if tn, ok := pkg.Scope().Lookup(s).(*types.TypeName); ok {
			return tn.Type()
		}
	}
	if tn, ok := types.Universe.Lookup(s).(*types.TypeName); ok {
		return tn.Type()
	}
	panic(specErr{fmt.Sprintf("cannot resolve type %q", s)})
}

// functions listed for a property
func (e *Engine) propertyFuncs(id string) (out []propFn) {
	for _, path := range sortedKeys(e.contracts) {
		pc := e.contracts[path]
		for _, k := range pc.Props[id] {
			tags := ""
			if i := strings.Index(k, "@"); i >= 0 {
				k, tags = k[:i], k[i+1:]
			}
			out = append(out, propFn{path, k, tags})
		}
	}
	return
}

type propFn struct{ pkg, key, tags string }

func (e *Engine) allProperties() []string {
	m := map[string]bool{}
	for _, pc := range e.contracts {
		for id := range pc.Props {
			m[id] = true
		}
	}
	var out []string
	for k := range m {
		out = append(out, k)
	}
	sort.Strings(out)
	return out
}

// scanErrGlobals finds package-level interface variables that `init` sets to a freshly allocated value
// (errors.New, fmt.Errorf, &T{...}) and that no other function of the module assigns.
func (e *Engine) scanErrGlobals() {
	e.errGlobals = map[string]bool{}
	e.errGlobalTag = map[string]string{}
	cand := map[*ssa.Global]bool{}
	candType := map[*ssa.Global]types.Type{}
	for _, sp := range e.spkgs {
		init := sp.Func("init")
		if init == nil {
			continue
		}
		for _, b := range init.Blocks {
			for _, in := range b.Instrs {
				st, ok := in.(*ssa.Store)
				if !ok {
					continue
				}
				g, ok := st.Addr.(*ssa.Global)
				if !ok {
					continue
				}
				if _, isIface := g.Type().Underlying().(*types.Pointer).Elem().Underlying().(*types.Interface); !isIface {
					continue
				}
				switch v := st.Val.(type) {
				case *ssa.Call:
					if f := v.Common().StaticCallee(); f != nil && (f.String() == "errors.New" || f.String() == "fmt.Errorf") {
						cand[g] = true
						if f.String() == "errors.New" {
							if ep := e.typesPkg("errors"); ep != nil {
								if tn, ok := ep.Scope().Lookup("errorString").(*types.TypeName); ok {
									candType[g] = types.NewPointer(tn.Type())
								}
							}
						}
					}
				case *ssa.MakeInterface:
					cand[g] = true
					candType[g] = v.X.Type()
				}
			}
		}
	}
	// function-typed package variables that init sets to a function value (a literal, a closure, or the result of
	// calling a module function all of whose returns are such values) and nobody else assigns: never nil
	e.funcGlobals = map[string]bool{}
	fcand := map[*ssa.Global]bool{}
	var surelyFunc func(v ssa.Value, depth int) bool
	surelyFunc = func(v ssa.Value, depth int) bool {
		switch x := v.(type) {
		case *ssa.Function, *ssa.MakeClosure:
			return true
		case *ssa.UnOp:
			// load of a local (the result cell in NaiveForm): every store to it is such a value
			if a, ok := x.X.(*ssa.Alloc); ok && x.Op == token.MUL && depth <= 4 {
				n := 0
				for _, ref := range *a.Referrers() {
					if st, isStore := ref.(*ssa.Store); isStore && st.Addr == ssa.Value(a) {
						n++
						if !surelyFunc(st.Val, depth+1) {
							return false
						}
					}
				}
				return n > 0
			}
			return false
		case *ssa.Call:
			f := x.Common().StaticCallee()
			if f == nil {
				if mc, ok := x.Common().Value.(*ssa.MakeClosure); ok {
					f, _ = mc.Fn.(*ssa.Function)
				}
			}
			if f == nil || f.Blocks == nil || depth > 2 {
				return false
			}
			n := 0
			for _, b := range f.Blocks {
				for _, in := range b.Instrs {
					if r, ok := in.(*ssa.Return); ok {
						n++
						if len(r.Results) != 1 || !surelyFunc(r.Results[0], depth+1) {
							return false
						}
					}
				}
			}
			return n > 0
		}
		return false
	}
	for _, sp := range e.spkgs {
		init := sp.Func("init")
		if init == nil {
			continue
		}
		for _, b := range init.Blocks {
			for _, in := range b.Instrs {
				st, ok := in.(*ssa.Store)
				if !ok {
					continue
				}
				g, ok := st.Addr.(*ssa.Global)
				if !ok {
					continue
				}
				if _, isFn := g.Type().Underlying().(*types.Pointer).Elem().Underlying().(*types.Signature); isFn && surelyFunc(st.Val, 0) {
					fcand[g] = true
				}
			}
		}
	}
	// disqualify globals stored to outside init
	for _, fn := range e.funcs {
		if fn.Synthetic != "" && fn.Name() == "init" {
			continue
		}
		for _, b := range fn.Blocks {
			for _, in := range b.Instrs {
				if st, ok := in.(*ssa.Store); ok {
					if g, ok := st.Addr.(*ssa.Global); ok {
						delete(cand, g)
						delete(fcand, g)
					}
				}
			}
		}
	}
	for g := range fcand {
		e.funcGlobals["G$"+sanitize(g.Pkg.Pkg.Name()+"."+g.Name())] = true
	}
	for g := range cand {
		k := "G$" + sanitize(g.Pkg.Pkg.Name()+"."+g.Name())
		e.errGlobals[k] = true
		if t := candType[g]; t != nil {
			e.errGlobalTag[k] = e.typeTag(t)
		}
	}
}

// isMonitorGuardedKey: heap key of a guarded (or ghost) field of some monitor type
func (e *Engine) isMonitorGuardedKey(key string) bool {
	if !strings.HasPrefix(key, "H$") {
		return false
	}
	rest := key[2:]
	parts := strings.SplitN(rest, ".", 3)
	if len(parts) < 3 {
		return false
	}
	pkgName, typ, field := parts[0], parts[1], parts[2]
	if i := strings.IndexAny(field, ".!"); i >= 0 {
		field = field[:i]
	}
	for _, pc := range e.contracts {
		tp := e.typesPkg(pc.Path)
		if tp == nil || tp.Name() != pkgName {
			continue
		}
		for _, m2 := range pc.Monitors {
			for _, o := range m2.Owns {
				if o == typ {
					return true
				}
				if o == "ghost:"+typ && strings.HasPrefix(field, "ghost$") {
					return true
				}
			}
		}
		md := pc.Monitors[typ]
		if md == nil {
			continue
		}
		if strings.HasPrefix(field, "ghost$") {
			return true
		}
		for _, g := range md.Guarded {
			if g == field {
				return true
			}
		}
	}
	return false
}

func (e *Engine) fmtID(format string) int {
	if e.fmtIDs == nil {
		e.fmtIDs = map[string]int{}
	}
	if id, ok := e.fmtIDs[format]; ok {
		return id
	}
	id := len(e.fmtIDs) + 1
	e.fmtIDs[format] = id
	return id
}
