package main

import (
	"fmt"
	"go/constant"
	"go/token"
	"go/types"
	"math/big"
	"sort"
	"strings"

	"golang.org/x/tools/go/ssa"
)

type Query struct {
	Obl    string
	Kind   string
	Hyps   []string
	Goal   string
	Pos    string
	Trail  string
	Clause string
	fx     *FuncCtx
	// results
	Status  string // unsat (discharged) | sat | unknown | timeout | error
	Solver  string
	Seconds float64
	Model   string
	Output  string
	Diag    []string
	GroundModel string // candidate counter-model of the quantifier-free weakening
	AnyOf   string // canary group: vacuous only if every member is refuted
	Canary  bool // vacuity canary: goal is false and must NOT be proved
	Pre     *Query // canary taken just before the same program point's assumptions: if that is refuted too the point is simply unreachable
	PreOnly bool
}

type FuncCtx struct {
	eng        *Engine
	curPos     token.Pos
	curInstr   ssa.Instruction
	skipPre    bool
	ghostRan   map[string]bool   // ghost blocks executed on at least one path
	ghostSkipped map[string]string // ghost blocks skipped because a local they name does not exist (message)
	rename     map[string]string // contract-local name -> current name of the renamed local (recovered, see recoverRename)
	openChans  map[string]bool // channel terms read from fields declared openchan
	timerChans map[string]bool // channel terms read from the C field of a *time.Timer
	fn         *ssa.Function
	fc         *FuncContract
	pc         *PkgContracts
	key        string
	mode       Mode
	ar         *Arith
	decls      *Decls
	keySorts   map[string]string
	refKeys    map[string]int
	mapKeySort map[string]string
	intElemKeys map[string]types.Type
	opaques    map[string]*opaqueInfo
	opaqueUsed map[string]bool
	queries    []*Query
	loopOrd    map[*ssa.BasicBlock]int
	loopBody   map[*ssa.BasicBlock]map[*ssa.BasicBlock]bool
	npaths     int
	paramVals  map[string]Val
	trusted    map[string]bool
	reveal     map[string]bool
	pkg        *types.Package
	errors     []string
	entryTop   string
	nquery     int
	resultCells []ssa.Value
	monitorRecv *monitorCtx
	inlined     map[string]bool
	loopsDone   map[*ssa.Function]bool
	effSrc      map[string][]ssa.Value // per heap key: objects written through (static), for targeted loop havoc
	effUnknown  map[string]bool
	effMon      map[string]bool // element heaps changed (also) by monitor calls in the loop body: only guarded arrays change
	paramAlias  map[ssa.Value]ssa.Value // parameters / free variables of callees inlined in a loop body -> argument at the call site
}

type monitorCtx struct {
	nt  *types.Named
	md  *MonitorDecl
	ref string
}

const maxPaths = 6000

func (fx *FuncCtx) posStr(p token.Pos) string {
	if !p.IsValid() {
		return ""
	}
	ps := fx.eng.prog.Fset.Position(p)
	return fmt.Sprintf("%s:%d", strings.TrimPrefix(ps.Filename, fx.eng.repo+"/"), ps.Line)
}

func (fx *FuncCtx) oblige(st *State, kind, label, goal string, pos token.Pos, clause string) {
	if goal == "true" {
		return
	}
	// split conjunctions (also under one implication) so that a failure names the conjunct
	fx.oblige1(st, kind, label, goal, pos, clause)
}

// top-level arguments of an s-expression "(op a b c)"
func sexprArgs(s string) (op string, args []string) {
	if len(s) < 2 || s[0] != '(' {
		return "", nil
	}
	i := 1
	for i < len(s) && s[i] != ' ' && s[i] != ')' {
		i++
	}
	op = s[1:i]
	for i < len(s)-1 {
		for i < len(s)-1 && s[i] == ' ' {
			i++
		}
		if i >= len(s)-1 {
			break
		}
		j := i
		if s[i] == '(' {
			d := 0
			for ; j < len(s); j++ {
				if s[j] == '(' {
					d++
				} else if s[j] == ')' {
					d--
					if d == 0 {
						j++
						break
					}
				}
			}
		} else {
			for j < len(s)-1 && s[j] != ' ' {
				j++
			}
		}
		args = append(args, s[i:j])
		i = j
	}
	return
}

func splitGoal(g string) []string {
	op, args := sexprArgs(g)
	switch op {
	case "and":
		var out []string
		for _, a := range args {
			out = append(out, splitGoal(a)...)
		}
		return out
	case "=>":
		if len(args) == 2 {
			sub := splitGoal(args[1])
			if len(sub) > 1 {
				var out []string
				for _, x := range sub {
					out = append(out, implies(args[0], x))
				}
				return out
			}
		}
	case "forall":
		// (forall (binders) body) with body possibly (! b :pattern ...): distribute over a conjunctive body
		if len(args) == 2 {
			body := args[1]
			pat := ""
			if bop, bargs := sexprArgs(body); bop == "!" && len(bargs) >= 1 {
				body = bargs[0]
				pat = " " + strings.Join(bargs[1:], " ")
			}
			sub := splitGoal(body)
			if len(sub) > 1 {
				var out []string
				for _, x := range sub {
					if pat != "" {
						out = append(out, "(forall "+args[0]+" (! "+x+pat+"))")
					} else {
						out = append(out, "(forall "+args[0]+" "+x+")")
					}
				}
				return out
			}
		}
	}
	return []string{g}
}

func (fx *FuncCtx) oblige1(st *State, kind, label, goal string, pos token.Pos, clause string) {
	if goal == "true" {
		return
	}
	name := fx.key + "/" + kind
	if label != "" {
		name += "[" + label + "]"
	}
	// trivial: goal literally among hypotheses
	for h := st.hyps; h != nil; h = h.parent {
		if h.s == goal {
			return
		}
	}
	q := &Query{Obl: fx.pc.Path[len(modPath):] + "." + name, Kind: kind, Hyps: st.hyps.list(), Goal: goal, Pos: fx.posStr(pos), Trail: strings.Join(st.trail, ","), Clause: clause, fx: fx}
	q.Obl = strings.TrimPrefix(q.Obl, "/")
	fx.queries = append(fx.queries, q)
}

func (fx *FuncCtx) canary(st *State, label string, pos token.Pos) *Query {
	q := &Query{Obl: strings.TrimPrefix(fx.pc.Path[len(modPath):]+"."+fx.key+"/vacuity["+label+"]", "/"), Kind: "vacuity", Hyps: st.hyps.list(), Goal: "false", Pos: fx.posStr(pos), Canary: true, fx: fx}
	fx.queries = append(fx.queries, q)
	return q
}

func (fx *FuncCtx) failf(format string, args ...any) {
	panic(unsupported(fmt.Sprintf(format, args...)))
}

// ---------------------------------------------------------------- entry

func (e *Engine) verifyFunc(pkgPath, key string) (fx *FuncCtx, err error) {
	fn := e.funcs[pkgPath+":"+key]
	pc := e.contracts[pkgPath]
	if pc != nil {
		if fc := pc.Funcs[key]; fc != nil && fc.Env {
			return e.verifyEnv(pc, fc, key)
		}
	}
	if fn == nil {
		return nil, fmt.Errorf("function %s:%s not found in the working tree", pkgPath, key)
	}
	fc := pc.Funcs[key]
	if fc == nil {
		return nil, fmt.Errorf("no contract for %s:%s", pkgPath, key)
	}
	fx = &FuncCtx{eng: e, fn: fn, fc: fc, pc: pc, key: key + e.tagSuffix, mode: fc.Mode, keySorts: map[string]string{}, refKeys: map[string]int{}, mapKeySort: map[string]string{}, intElemKeys: map[string]types.Type{}, opaques: map[string]*opaqueInfo{}, opaqueUsed: map[string]bool{},
		trusted: map[string]bool{}, reveal: map[string]bool{}, pkg: fn.Pkg.Pkg, paramVals: map[string]Val{}}
	fx.decls = newDecls()
	fx.ar = newArith(fx.mode, fx.decls)
	fx.rename = e.renameTry[pkgPath+":"+key]
	for g := range e.errGlobals {
		fx.decls.declare(g+"!tag@0", "Int")
		fx.decls.declare(g+"!data@0", "Int")
	}
	if r, ok := fc.Opts["reveal"]; ok {
		for _, n := range strings.Split(r, ",") {
			fx.reveal[strings.TrimSpace(n)] = true
		}
	}
	defer func() {
		if r := recover(); r != nil {
			switch x := r.(type) {
			case unsupported:
				// the body uses something the contracts do not cover (a call without contract, an unmodelled
				// construct): the function cannot be verified against its contract as written - reported like a
				// contract that no longer fits, not as a pass and not as a bare tool failure
				err = &staleContractErr{key: key, msg: "body not verifiable against the contract: " + string(x)}
			case specErr:
				err = &staleContractErr{key: key, msg: x.msg}
			default:
				panic(r)
			}
		}
	}()
	if fc.Trusted || fc.Extern || fc.Env {
		return fx, nil
	}
	fx.analyseLoops()
	st := &State{regs: map[ssa.Value]Val{}, cells: map[ssa.Value]Val{}, heap: map[string]string{}, held: map[string]string{}, inLoop: map[*ssa.BasicBlock]bool{}, freshRefs: map[string]bool{}, callN: map[string]int{}}
	fx.entryTop = fx.decls.declare("alloc$top@entry", "Int")
	st.heap["alloc$top"] = fx.entryTop
	st.assume(sx(">=", fx.entryTop, "0"))
	// parameters
	for i, p := range fn.Params {
		v := fx.freshVal("p$"+p.Name(), p.Type())
		st.regs[p] = v
		fx.assumeTyping(st, v)
		if i == 0 && fn.Signature.Recv() != nil {
			if _, isPtr := p.Type().Underlying().(*types.Pointer); isPtr {
				st.assume(not(eq(v.s(), "0")))
			}
		}
		fx.paramVals[p.Name()] = v
	}
	for _, fv := range fn.FreeVars {
		pt, ok := fv.Type().Underlying().(*types.Pointer)
		if !ok {
			fx.failf("free variable %s is not a pointer", fv.Name())
		}
		v := fx.freshVal("fv$"+fv.Name(), pt.Elem())
		fx.assumeTyping(st, v)
		st.cells[fv] = v
		st.regs[fv] = Val{T: fv.Type(), L: &Loc{Kind: LocCell, Cell: fv, T: pt.Elem()}}
		fx.paramVals[fv.Name()] = v
	}
	// contract parameter names must match
	fx.bindContractNames()
	env := fx.specEnv(st, st.heap, st.heap)
	for _, lk := range fc.Locked {
		v := env.eval(lk)
		if v.L == nil {
			fx.failf("locked: %s is not a mutex", lk)
		}
		st.held[mutexKey(v.L)] = "w"
	}
	for _, ax := range fx.axioms(env) {
		st.assume(ax)
	}
	env.atEntry = true
	for _, rq := range fc.Requires {
		var side []string
		env.side = &side
		t := env.boolTerm(rq.E)
		for _, s := range side {
			st.assume(s)
		}
		st.assume(t)
	}
	env.atEntry = false
	fx.canary(st, "entry", fn.Pos())
	entry := st.clone()
	entry.atlock = nil
	fx.run(entry, fn.Blocks[0], nil)
	// a ghost block whose anchor was reached but which never ran because it names a local that exists nowhere: the
	// contract no longer fits (a renamed local, typically) - reported like any other unknown identifier
	for _, k := range sortedKeys(fx.ghostSkipped) {
		if !fx.ghostRan[k] {
			return nil, &staleContractErr{key: key, msg: fx.ghostSkipped[k] + " (ghost block `" + strings.SplitN(k, "|", 2)[0] + "` never applies)"}
		}
	}
	return fx, nil
}

func (fx *FuncCtx) bindContractNames() {
	fn, fc := fx.fn, fx.fc
	params := fn.Params
	idx := 0
	if fn.Signature.Recv() != nil && len(params) > 0 {
		if fc.Recv != "" && fc.Recv != params[0].Name() {
			fx.paramVals[fc.Recv] = fx.paramVals[params[0].Name()]
		}
		idx = 1
	}
	for i, n := range fc.Params {
		if idx+i < len(params) && n != "_" && n != params[idx+i].Name() {
			fx.paramVals[n] = fx.paramVals[params[idx+i].Name()]
		}
	}
	if len(fc.Params) != len(params)-idx && fn.Parent() == nil {
		fx.failf("contract header of %s has %d parameters, function has %d", fx.key, len(fc.Params), len(params)-idx)
	}
}

func (fx *FuncCtx) specEnv(st *State, cur, old map[string]string) *SpecEnv {
	vars := map[string]Val{}
	for k, v := range fx.paramVals {
		vars[k] = v
	}
	// parameters that were copied into cells by NaiveForm keep their entry value under the parameter name;
	// locals (for loop invariants) are added by the caller.
	return &SpecEnv{fx: fx, pkg: fx.pkg, vars: vars, cur: cur, old: old, atlock: st.atlock, st: st, reveal: fx.reveal}
}

func (fx *FuncCtx) axioms(env *SpecEnv) []string {
	var out []string
	for _, path := range sortedKeys(fx.eng.contracts) {
		pc := fx.eng.contracts[path]
		if path != fx.pc.Path && !imports(fx.pkg, path) {
			continue
		}
		for _, ax := range pc.Axioms {
			ne := *env
			ne.pkg = fx.eng.typesPkg(path)
			func() {
				defer func() {
					if r := recover(); r != nil {
						if se, ok := r.(specErr); ok {
							panic(specErr{"axiom " + ax.Name + ": " + se.msg})
						}
						panic(r)
					}
				}()
				out = append(out, ne.boolTerm(ax.E))
			}()
			fx.trusted["axiom "+ax.Name+": "+ax.Src] = true
		}
	}
	return out
}

func imports(p *types.Package, path string) bool {
	for _, i := range p.Imports() {
		if i.Path() == path {
			return true
		}
	}
	return false
}

func (fx *FuncCtx) freshVal(prefix string, t types.Type) Val {
	v := Val{T: t}
	if _, ok := t.Underlying().(*types.Tuple); ok {
		tup := t.Underlying().(*types.Tuple)
		for i := 0; i < tup.Len(); i++ {
			v.Tup = append(v.Tup, fx.freshVal(fmt.Sprintf("%s$%d", prefix, i), tup.At(i).Type()))
		}
		return v
	}
	for _, c := range fx.mode.comps(t) {
		v.C = append(v.C, fx.decls.fresh(prefix+c.suffix, c.sort))
	}
	return v
}

func (fx *FuncCtx) assumeTyping(st *State, v Val) {
	if v.Tup != nil {
		for _, x := range v.Tup {
			fx.assumeTyping(st, x)
		}
		return
	}
	for _, f := range fx.typingFacts(v) {
		st.assume(f)
	}
	// references are allocated
	if v.T != nil && len(v.C) > 0 {
		cs := fx.mode.comps(v.T)
		if len(cs) == len(v.C) {
			for i, c := range cs {
				if c.kind == "ref" {
					st.assume(sx("<=", v.C[i], st.top()))
					st.assume(sx(">=", v.C[i], "0"))
				}
			}
		}
	}
}

func (st *State) top() string { return st.heap["alloc$top"] }

func (fx *FuncCtx) newRef(st *State, prefix string) string {
	r := fx.decls.fresh(prefix, "Int")
	st.assume(sx(">", r, st.top()))
	st.heap["alloc$top"] = r
	st.freshRefs[r] = true
	return r
}

// after something unknown happened (call, lock): the allocator may have advanced
func (fx *FuncCtx) bumpTop(st *State) {
	t := fx.decls.fresh("alloc$top", "Int")
	st.assume(sx(">=", t, st.top()))
	st.heap["alloc$top"] = t
}

// ---------------------------------------------------------------- loops

func (fx *FuncCtx) analyseLoops() { fx.analyseLoopsOf(fx.fn) }

func (fx *FuncCtx) analyseLoopsOf(fn *ssa.Function) {
	if fx.loopOrd == nil {
		fx.loopOrd = map[*ssa.BasicBlock]int{}
		fx.loopBody = map[*ssa.BasicBlock]map[*ssa.BasicBlock]bool{}
		fx.loopsDone = map[*ssa.Function]bool{}
	}
	if fx.loopsDone[fn] {
		return
	}
	fx.loopsDone[fn] = true
	local := map[*ssa.BasicBlock]bool{}
	for _, b := range fn.Blocks {
		for _, s := range b.Succs {
			if s.Dominates(b) {
				// back edge b -> s
				body := fx.loopBody[s]
				if body == nil {
					body = map[*ssa.BasicBlock]bool{s: true}
					fx.loopBody[s] = body
				}
				local[s] = true
				var stack []*ssa.BasicBlock
				if !body[b] {
					body[b] = true
					stack = append(stack, b)
				}
				for len(stack) > 0 {
					x := stack[len(stack)-1]
					stack = stack[:len(stack)-1]
					for _, p := range x.Preds {
						if !body[p] {
							body[p] = true
							stack = append(stack, p)
						}
					}
				}
			}
		}
	}
	type hp struct {
		b   *ssa.BasicBlock
		pos token.Pos
	}
	var heads []hp
	for h, body := range fx.loopBody {
		if !local[h] {
			continue
		}
		min := token.Pos(1 << 40)
		for b := range body {
			for _, in := range b.Instrs {
				if p := in.Pos(); p.IsValid() && p < min {
					min = p
				}
			}
		}
		heads = append(heads, hp{h, min})
	}
	sort.Slice(heads, func(i, j int) bool {
		if heads[i].pos != heads[j].pos {
			return heads[i].pos < heads[j].pos
		}
		return heads[i].b.Index < heads[j].b.Index
	})
	for i, h := range heads {
		fx.loopOrd[h.b] = i + 1
	}
}

// ---------------------------------------------------------------- main loop

func (fx *FuncCtx) run(st *State, b *ssa.BasicBlock, from *ssa.BasicBlock) {
	for {
		if st.dead {
			return
		}
		st.prev = from
		if body, isHead := fx.loopBody[b]; isHead {
			if from != nil && body[from] {
				fx.loopArrive(st, b, "preserve")
				return
			}
			fx.loopArrive(st, b, "entry")
			fx.loopHavoc(st, b)
		}
		var next *ssa.BasicBlock
		for _, in := range b.Instrs {
			switch in := in.(type) {
			case *ssa.If:
				c := fx.val(st, in.Cond).s()
				if c == "true" {
					next = b.Succs[0]
				} else if c == "false" {
					next = b.Succs[1]
				} else {
					fx.npaths++
					if fx.npaths > maxPaths {
						fx.failf("path explosion in %s (> %d paths)", fx.key, maxPaths)
					}
					st2 := st.clone()
					st2.assume(not(c))
					st2.trail = append(st2.trail, fmt.Sprintf("b%d:F", b.Index))
					st.assume(c)
					st.trail = append(st.trail, fmt.Sprintf("b%d:T", b.Index))
					fx.run(st2, b.Succs[1], b)
					next = b.Succs[0]
				}
			case *ssa.Jump:
				next = b.Succs[0]
			case *ssa.Return:
				if fx.inlineReturn(st, in) {
					return
				}
				fx.doReturn(st, in)
				return
			case *ssa.Panic:
				fx.oblige(st, "safe", "panic", "false", in.Pos(), "explicit panic is unreachable")
				return
			default:
				fx.exec(st, in)
				if st.dead {
					return
				}
			}
		}
		if next == nil {
			return
		}
		from, b = b, next
	}
}

func (fx *FuncCtx) loopSpec(b *ssa.BasicBlock) (int, *LoopSpec) {
	k := fx.loopOrd[b]
	if b.Parent() != fx.fn {
		return 1000 + k, &LoopSpec{} // loop of an inlined callee: no invariant
	}
	if fx.fc.Loops != nil {
		if ls := fx.fc.Loops[k]; ls != nil {
			return k, ls
		}
	}
	return k, &LoopSpec{}
}

func (fx *FuncCtx) localsEnv(st *State, cur, old map[string]string) *SpecEnv {
	env := fx.specEnv(st, cur, old)
	// named locals (NaiveForm allocs): latest declaration wins for duplicate names
	for v, cell := range st.cells {
		if a, ok := v.(*ssa.Alloc); ok && a.Parent() == fx.fn && a.Comment != "" && !strings.Contains(a.Comment, "$") && !strings.Contains(a.Comment, " ") {
			if _, isParam := fx.paramVals[a.Comment]; isParam {
				// shadowing of a parameter by its own cell: the cell holds the current value
				env.vars["cur$"+a.Comment] = cell
				continue
			}
			if prev, dup := env.vars[a.Comment]; dup && prev.T != nil {
				_ = prev
			}
			env.vars[a.Comment] = cell
		}
	}
	// while the body of an uncontracted helper is executed in place, its named locals are visible to ghost code too
	// (statements moved into a helper keep their ghost blocks working); names of the function itself win
	if len(st.frames) > 0 {
		active := map[*ssa.Function]bool{}
		for _, f := range st.frames {
			active[f.fn] = true
		}
		for v, cell := range st.cells {
			if a, ok := v.(*ssa.Alloc); ok && active[a.Parent()] && a.Comment != "" && !strings.Contains(a.Comment, "$") && !strings.Contains(a.Comment, " ") {
				if _, dup := env.vars[a.Comment]; dup {
					continue
				}
				if _, isParam := fx.paramVals[a.Comment]; isParam {
					continue
				}
				env.vars[a.Comment] = cell
			}
		}
	}
	return env
}

func (fx *FuncCtx) loopArrive(st *State, b *ssa.BasicBlock, phase string) {
	k, ls := fx.loopSpec(b)
	env := fx.localsEnv(st, st.heap, map[string]string{})
	fx.bindLoopIndex(env, st, b)
	for i, inv := range ls.Invs {
		label := inv.Name
		if label == "" {
			label = fmt.Sprintf("#%d", i+1)
		}
		var side []string
		env.side = &side
		t, ok := fx.optionalTerm(env, inv)
		if !ok {
			continue
		}
		for _, s := range side {
			st.assume(s) // typing facts of the Go values the invariant reads
		}
		fx.oblige(st, fmt.Sprintf("loop%d/%s", k, phase), label, t, firstPos(b), inv.Src)
	}
}

func firstPos(b *ssa.BasicBlock) token.Pos {
	for _, in := range b.Instrs {
		if in.Pos().IsValid() {
			return in.Pos()
		}
	}
	return token.NoPos
}

func (fx *FuncCtx) loopHavoc(st *State, b *ssa.BasicBlock) {
	body := fx.loopBody[b]
	cells, keys, locks := fx.effectsOf(body)
	modKeySet := map[string]bool{}
	for _, k := range keys {
		modKeySet[k.Key] = true
	}
	for _, c := range cells {
		old, ok := st.cells[c]
		if !ok {
			continue
		}
		nv := fx.freshVal("l$"+c.Name(), old.T)
		st.cells[c] = nv
		fx.assumeTyping(st, nv)
		// a counter that the loop only ever increments by non-negative constants does not fall below its value at loop
		// entry (inferred invariant; wrap-around of such a counter would need 2^63 iterations and is not modelled)
		if fx.mode == ModeInt && len(nv.C) == 1 && len(old.C) == 1 && isIntegerType(old.T) && fx.onlyIncremented(c, body) {
			st.assume(sx(">=", nv.C[0], old.C[0]))
			fx.trusted["inferred loop invariant: counters only incremented by constants do not wrap around"] = true
		}
	}
	for _, k := range keys {
		sortOf := fx.keySorts[k.Key]
		if sortOf == "" {
			sortOf = k.Sort
		}
		fx.keySorts[k.Key] = sortOf
		if fx.effMon[k.Key] && strings.HasPrefix(sortOf, "(Array Int ") {
			// monitor calls in the body: arrays held in guarded slice fields (and arrays allocated in the loop) change
			cur := fx.heapGet(st.heap, k)
			nv := fx.decls.fresh(k.Key, sortOf)
			fx.decls.n++
			qo := fmt.Sprintf("q$ga!%d", fx.decls.n)
			st.assume("(forall ((" + qo + " Int)) (! " + implies(and(sx("<=", qo, st.top()), not(sx("select", fx.guardedArrays(), qo))), eq(sx("select", nv, qo), sx("select", cur, qo))) + " :pattern (" + sx("select", nv, qo) + ")))")
			st.heap[k.Key] = nv
			st.noteWrite(k.Key, "*")
			if len(fx.effSrc[k.Key]) == 0 && !fx.effUnknown[k.Key] {
				continue
			}
		}
		// targeted havoc when every write in the loop goes through objects that are loop-invariant
		if srcs := fx.effSrc[k.Key]; len(srcs) > 0 && !fx.effUnknown[k.Key] && strings.HasPrefix(sortOf, "(Array Int ") {
			var refs []string
			ok := true
			freshInLoop := false
			for _, sv := range srcs {
				if allocatedIn(sv, body) {
					freshInLoop = true // written object is allocated inside the loop: above the allocator position at the loop head
					continue
				}
				r, good := fx.resolveRef(st, sv, cells, body, modKeySet)
				if !good {
					ok = false
					break
				}
				if !contains(refs, r) {
					refs = append(refs, r)
				}
			}
			if ok && freshInLoop {
				cur := fx.heapGet(st.heap, k)
				nv := fx.decls.fresh(k.Key, sortOf)
				fx.decls.n++
				qo := fmt.Sprintf("q$fl!%d", fx.decls.n)
				st.assume("(forall ((" + qo + " Int)) (! " + implies(sx("<=", qo, st.top()), eq(sx("select", nv, qo), sx("select", cur, qo))) + " :pattern (" + sx("select", nv, qo) + ")))")
				st.heap[k.Key] = nv
				st.noteWrite(k.Key, "fresh-in-loop")
			}
			if ok {
				for _, r := range refs {
					fv := fx.decls.fresh("lh$"+k.Key, innerSort(sortOf))
					if et, isInt := fx.intElemKeys[k.Key]; isInt {
						fx.decls.n++
						qt := fmt.Sprintf("q$tl!%d", fx.decls.n)
						st.assume("(forall ((" + qt + " Int)) (! " + fx.ar.rangeFact(sx("select", fv, qt), et) + " :pattern (" + sx("select", fv, qt) + ")))")
					}
					fx.heapSet(st, k, sx("store", fx.heapGet(st.heap, k), r, fv))
				}
				continue
			}
		}
		prevVer := fx.heapGet(st.heap, k)
		st.heap[k.Key] = fx.decls.fresh(k.Key, sortOf)
		st.noteWrite(k.Key, "*")
		if k.Key == chClosed.Key {
			// closed channels stay closed
			fx.decls.n++
			q := fmt.Sprintf("q$ch!%d", fx.decls.n)
			st.assume("(forall ((" + q + " Int)) (! " + implies(sx("select", prevVer, q), sx("select", st.heap[k.Key], q)) + " :pattern (" + sx("select", st.heap[k.Key], q) + ")))")
		}
		if et, ok := fx.intElemKeys[k.Key]; ok {
			nm := st.heap[k.Key]
			fx.decls.n++
			qo, qi := fmt.Sprintf("q$to!%d", fx.decls.n), fmt.Sprintf("q$ti!%d", fx.decls.n)
			tm := sx("select", sx("select", nm, qo), qi)
			st.assume("(forall ((" + qo + " Int) (" + qi + " Int)) (! " + fx.ar.rangeFact(tm, et) + " :pattern (" + tm + ")))")
		}
	}
	if locks {
		st.atlock = nil
	}
	fx.bumpTop(st)
	k, ls := fx.loopSpec(b)
	_ = k
	env := fx.localsEnv(st, st.heap, map[string]string{})
	fx.bindLoopIndex(env, st, b)
	for _, inv := range ls.Invs {
		var side []string
		env.side = &side
		t, ok := fx.optionalTerm(env, inv)
		if !ok {
			continue
		}
		for _, s := range side {
			st.assume(s)
		}
		st.assume(t)
	}
}

// optionalTerm evaluates a loop invariant; an invariant declared `invariant?` is dropped (both as an obligation and as
// a hypothesis) when it names a local the function does not have - it is auxiliary to one loop shape only.
func (fx *FuncCtx) optionalTerm(env *SpecEnv, inv Clause) (t string, ok bool) {
	if !inv.Optional {
		return env.boolTerm(inv.E), true
	}
	if fx.eng.dropOptional[fx.pc.Path+":"+strings.TrimSuffix(fx.key, fx.eng.tagSuffix)] {
		return "", false
	}
	defer func() {
		if r := recover(); r != nil {
			if se, isSpec := r.(specErr); isSpec && strings.Contains(se.msg, "unknown identifier") {
				t, ok = "", false
				return
			}
			panic(r)
		}
	}()
	return env.boolTerm(inv.E), true
}

func isIntegerType(t types.Type) bool {
	b, ok := t.Underlying().(*types.Basic)
	return ok && b.Info()&types.IsInteger != 0 && b.Info()&types.IsUnsigned == 0
}

// bindLoopIndex makes loop invariants independent of the two ways to write a counting loop over a slice:
// `for i := range xs` has the hidden counter `rangeindex` (index of the last completed iteration, -1 before the first),
// `for i := 0; i < n; i++` has the counter i (number of completed iterations).  In a counting loop without a hidden
// counter `rangeindex` stands for i-1; in a range loop whose key variable is k, k at the loop head stands for
// rangeindex+1 (inside the body both forms agree anyway).  Invariants are auxiliary: these are definitions, not assumptions.
func (fx *FuncCtx) bindLoopIndex(env *SpecEnv, st *State, b *ssa.BasicBlock) {
	body := fx.loopBody[b]
	if body == nil || b.Parent() != fx.fn {
		return
	}
	one := func(v Val, d string) Val {
		if len(v.C) != 1 {
			return v
		}
		return Val{T: v.T, C: []string{sx(d, v.C[0], "1")}}
	}
	if _, has := env.vars["rangeindex"]; !has && fx.mode == ModeInt {
		// counting loop: condition `c < bound` on a local that the body only ever increments by one
		if len(b.Instrs) > 0 {
			if iff, ok := b.Instrs[len(b.Instrs)-1].(*ssa.If); ok {
				if bo, ok := iff.Cond.(*ssa.BinOp); ok && bo.Op == token.LSS {
					if ld, ok := bo.X.(*ssa.UnOp); ok && ld.Op == token.MUL {
						if a, ok := ld.X.(*ssa.Alloc); ok && a.Comment != "" && fx.incrementedByOne(a, body) {
							if cv, ok := st.cells[a]; ok && isIntegerType(cv.T) {
								env.vars["rangeindex"] = one(cv, "-")
							}
						}
					}
				}
			}
		}
		return
	}
	// range loop: the key variable is assigned from the hidden counter at the start of the body
	var hidden *ssa.Alloc
	for v := range st.cells {
		if a, ok := v.(*ssa.Alloc); ok && a.Parent() == fx.fn && a.Comment == "rangeindex" {
			for _, ref := range *a.Referrers() {
				if in, ok := ref.(ssa.Instruction); ok && in.Block() == b {
					hidden = a
				}
			}
		}
	}
	if hidden == nil || fx.mode != ModeInt {
		return
	}
	for blk := range body {
		for _, in := range blk.Instrs {
			sto, ok := in.(*ssa.Store)
			if !ok {
				continue
			}
			key, ok := sto.Addr.(*ssa.Alloc)
			ld, ok2 := sto.Val.(*ssa.UnOp)
			if !ok || !ok2 || ld.Op != token.MUL || ld.X != ssa.Value(hidden) || key.Comment == "" || key.Parent() != fx.fn {
				continue
			}
			// no other store to the key variable inside the loop
			n := 0
			for _, ref := range *key.Referrers() {
				if s2, isStore := ref.(*ssa.Store); isStore && s2.Addr == ssa.Value(key) && body[s2.Block()] {
					n++
				}
			}
			if hv, okh := st.cells[hidden]; okh && n == 1 {
				if _, isParam := fx.paramVals[key.Comment]; !isParam {
					env.vars[key.Comment] = one(hv, "+")
				}
			}
		}
	}
}

func (fx *FuncCtx) incrementedByOne(cell ssa.Value, body map[*ssa.BasicBlock]bool) bool {
	n := 0
	for b := range body {
		for _, in := range b.Instrs {
			st, ok := in.(*ssa.Store)
			if !ok || st.Addr != cell {
				continue
			}
			n++
			bo, ok := st.Val.(*ssa.BinOp)
			if !ok || bo.Op != token.ADD {
				return false
			}
			ld, ok1 := bo.X.(*ssa.UnOp)
			k, ok2 := bo.Y.(*ssa.Const)
			if !ok1 || !ok2 || ld.Op != token.MUL || ld.X != cell || k.Value == nil {
				return false
			}
			if v, exact := constant.Int64Val(constant.ToInt(k.Value)); !exact || v != 1 {
				return false
			}
		}
	}
	return n == 1
}

// onlyIncremented: every store to the cell inside the loop body writes (load of the cell) + non-negative constant.
func (fx *FuncCtx) onlyIncremented(cell ssa.Value, body map[*ssa.BasicBlock]bool) bool {
	n := 0
	for b := range body {
		for _, in := range b.Instrs {
			st, ok := in.(*ssa.Store)
			if !ok || st.Addr != cell {
				continue
			}
			n++
			bo, ok := st.Val.(*ssa.BinOp)
			if !ok || bo.Op != token.ADD {
				return false
			}
			ld, ok1 := bo.X.(*ssa.UnOp)
			k, ok2 := bo.Y.(*ssa.Const)
			if !ok1 || !ok2 || ld.Op != token.MUL || ld.X != cell || k.Value == nil {
				return false
			}
			if v, exact := constant.Int64Val(constant.ToInt(k.Value)); !exact || v < 0 {
				return false
			}
		}
	}
	return n > 0
}

// effectsOf: cells and heap keys possibly written by the blocks.
func (fx *FuncCtx) effectsOf(blocks map[*ssa.BasicBlock]bool) (cells []ssa.Value, keys []HeapKey, locks bool) {
	cellSet := map[ssa.Value]bool{}
	keySet := map[string]HeapKey{}
	fx.effSrc = map[string][]ssa.Value{}
	fx.effUnknown = map[string]bool{}
	fx.effMon = map[string]bool{}
	fx.paramAlias = map[ssa.Value]ssa.Value{}
	for b := range blocks {
		for _, in := range b.Instrs {
			if fx.instrEffects(in, cellSet, keySet, 0) {
				locks = true
			}
		}
	}
	// cells written through the free variables of closures inlined in the body: the captured cell of the caller
	for c := range cellSet {
		if fv, ok := c.(*ssa.FreeVar); ok && fv.Parent() != fx.fn {
			if a, known := fx.paramAlias[fv]; known && a != nil {
				delete(cellSet, c)
				cellSet[a] = true
			}
		}
	}
	for c := range cellSet {
		cells = append(cells, c)
	}
	sort.Slice(cells, func(i, j int) bool { return cells[i].Name() < cells[j].Name() })
	for _, k := range sortedKeys(keySet) {
		keys = append(keys, keySet[k])
	}
	return
}

// instrEffects: static write effects of one instruction (cells, heap keys; reports whether it may take a lock).  Calls of
// functions without a contract are inlined by the executor, so their bodies are scanned too, with their parameters and
// free variables aliased to the arguments at the call site (paramAlias) so that targeted havoc can still resolve them.
func (fx *FuncCtx) instrEffects(in ssa.Instruction, cellSet map[ssa.Value]bool, keySet map[string]HeapKey, depth int) (locks bool) {
	switch in := in.(type) {
	case *ssa.Store:
		fx.staticAddrKeys(in.Addr, cellSet, keySet)
	case *ssa.MapUpdate:
		if mt, ok := in.Map.Type().Underlying().(*types.Map); ok {
			dom, vals, _, _ := fx.mapKeys(mt)
			keySet[dom.Key] = dom
			for _, v := range vals {
				keySet[v.Key] = v
			}
			lk := HeapKey{"ML$" + sanitize(typeStr(mt)), "(Array Int Int)"}
			keySet[lk.Key] = lk
		}
	case *ssa.Send:
		for _, k := range chanKeys() {
			keySet[k.Key] = k
		}
	case *ssa.Select:
		for _, k := range chanKeys() {
			keySet[k.Key] = k
		}
	case *ssa.UnOp:
		if in.Op == token.ARROW {
			for _, k := range chanKeys() {
				keySet[k.Key] = k
			}
		}
	case ssa.CallInstruction:
		cc := in.Common()
		if fx.callEffects(cc, cellSet, keySet) {
			locks = true
		}
		for _, tgt := range fx.staticInlinees(cc) {
			callee := tgt.fn
			if depth >= maxInlineDepth {
				fx.failf("inlining depth exceeded at %s (give it a contract)", callee.String())
			}
			fx.aliasParams(callee, cc, tgt.mc)
			for _, b := range callee.Blocks {
				for _, ci := range b.Instrs {
					if fx.instrEffects(ci, cellSet, keySet, depth+1) {
						locks = true
					}
				}
			}
		}
	}
	return locks
}

type inlineTarget struct {
	fn *ssa.Function
	mc *ssa.MakeClosure
}

// staticInlinees: the functions the executor may inline at this call (no contract, body available, in the module).  A
// function value is traced through locals (every store to the local) and phis to the functions / closures it can hold.
func (fx *FuncCtx) staticInlinees(cc *ssa.CallCommon) []inlineTarget {
	if cc.IsInvoke() || isLogCall(cc) {
		return nil
	}
	if _, ok := cc.Value.(*ssa.Builtin); ok {
		return nil
	}
	var cands []inlineTarget
	if callee := cc.StaticCallee(); callee != nil {
		mc, _ := cc.Value.(*ssa.MakeClosure)
		cands = append(cands, inlineTarget{callee, mc})
	} else {
		seen := map[ssa.Value]bool{}
		var trace func(v ssa.Value)
		trace = func(v ssa.Value) {
			if v == nil || seen[v] {
				return
			}
			seen[v] = true
			switch x := v.(type) {
			case *ssa.Function:
				cands = append(cands, inlineTarget{x, nil})
			case *ssa.MakeClosure:
				if f, ok := x.Fn.(*ssa.Function); ok {
					cands = append(cands, inlineTarget{f, x})
				}
			case *ssa.Phi:
				for _, e := range x.Edges {
					trace(e)
				}
			case *ssa.ChangeType:
				trace(x.X)
			case *ssa.UnOp:
				if a, ok := x.X.(*ssa.Alloc); ok && x.Op == token.MUL {
					for _, ref := range *a.Referrers() {
						if sto, isStore := ref.(*ssa.Store); isStore && sto.Addr == a {
							trace(sto.Val)
						}
					}
				}
			}
		}
		trace(cc.Value)
	}
	var out []inlineTarget
	for _, c := range cands {
		callee := c.fn
		if callee == nil || callee.Blocks == nil {
			continue
		}
		pkg := callee.Pkg
		if pkg == nil && callee.Parent() != nil {
			pkg = callee.Parent().Pkg
		}
		if pkg == nil || !strings.HasPrefix(pkg.Pkg.Path(), modPath) {
			continue
		}
		if fx.eng.contractOf(callee) != nil || fx.eng.externContract(callee) != nil {
			continue
		}
		out = append(out, c)
	}
	return out
}

func (fx *FuncCtx) aliasParams(callee *ssa.Function, cc *ssa.CallCommon, mc *ssa.MakeClosure) {
	set := func(p ssa.Value, a ssa.Value) {
		if prev, ok := fx.paramAlias[p]; ok && prev != a {
			fx.paramAlias[p] = nil // called with different arguments: not resolvable statically
			return
		}
		fx.paramAlias[p] = a
	}
	for i, p := range callee.Params {
		if i < len(cc.Args) {
			set(p, cc.Args[i])
		}
	}
	if mc != nil {
		for i, fv := range callee.FreeVars {
			if i < len(mc.Bindings) {
				set(fv, mc.Bindings[i])
			}
		}
	}
}

func (fx *FuncCtx) noteEff(key string, src ssa.Value) {
	if src == nil {
		fx.effUnknown[key] = true
		return
	}
	fx.effSrc[key] = append(fx.effSrc[key], src)
}

// resolveRef: the object reference denoted by an SSA value that is invariant in the loop
func (fx *FuncCtx) resolveRef(st *State, v ssa.Value, modCells []ssa.Value, body map[*ssa.BasicBlock]bool, modKeys map[string]bool) (string, bool) {
	isMod := func(c ssa.Value) bool {
		for _, m := range modCells {
			if m == c {
				return true
			}
		}
		return false
	}
	_, isSlice := v.Type().Underlying().(*types.Slice)
	want := 1
	if isSlice {
		want = 4
	}
	switch x := v.(type) {
	case *ssa.Parameter:
		if x.Parent() != fx.fn {
			if a := fx.paramAlias[x]; a != nil {
				return fx.resolveRef(st, a, modCells, body, modKeys)
			}
			return "", false
		}
		if r, ok := st.regs[x]; ok && len(r.C) == want {
			return r.C[0], true
		}
	case *ssa.Slice:
		// re-slicing keeps the backing array
		return fx.resolveRef(st, x.X, modCells, body, modKeys)
	case *ssa.UnOp:
		if x.Op == token.MUL {
			switch c := x.X.(type) {
			case *ssa.FieldAddr:
				// field of a loop-invariant object whose (base) component is not written in the loop
				root, path, base := fx.staticFieldPath(c)
				ft := c.Type().Underlying().(*types.Pointer).Elem()
				cs := fx.mode.comps(ft)
				if len(cs) == want && base != nil {
					k := fx.fieldKey(root, path, cs[0])
					if !modKeys[k.Key] {
						if ref, ok := fx.resolveRef(st, base, modCells, body, modKeys); ok {
							return sx("select", fx.heapGet(st.heap, k), ref), true
						}
					}
				}
			case *ssa.Alloc:
				if c.Parent() != fx.fn && !fx.allocIsObject(c) {
					// local of an inlined callee: resolvable when it is the spill of a parameter (stored exactly once)
					var src ssa.Value
					n := 0
					for _, ref := range *c.Referrers() {
						if sto, isStore := ref.(*ssa.Store); isStore && sto.Addr == c {
							n++
							src = sto.Val
						}
					}
					if pv, isParam := src.(*ssa.Parameter); isParam && n == 1 {
						return fx.resolveRef(st, pv, modCells, body, modKeys)
					}
					return "", false
				}
				if !fx.allocIsObject(c) && !isMod(c) {
					if cv, ok := st.cells[c]; ok && len(cv.C) == want {
						return cv.C[0], true
					}
				}
			case *ssa.FreeVar:
				if c.Parent() != fx.fn {
					if al, isAlloc := fx.paramAlias[c].(*ssa.Alloc); isAlloc && !isMod(al) {
						if cv, ok := st.cells[al]; ok && len(cv.C) == want {
							return cv.C[0], true
						}
					}
					return "", false
				}
				if !isMod(c) {
					if cv, ok := st.cells[c]; ok && len(cv.C) == want {
						return cv.C[0], true
					}
				}
			}
		}
	case *ssa.Alloc:
		if fx.allocIsObject(x) && !body[x.Block()] {
			if r, ok := st.regs[x]; ok && len(r.C) == 1 {
				return r.C[0], true
			}
		}
	}
	return "", false
}

// allocatedIn: the value denotes an object allocated by an instruction of the given blocks (possibly re-sliced)
func allocatedIn(v ssa.Value, body map[*ssa.BasicBlock]bool) bool {
	// instructions of another function than the loop's are those of a helper executed in place by a call inside the loop
	// body (only such bodies are scanned for effects): allocated during the iteration as well
	inLoop := func(b *ssa.BasicBlock) bool {
		if body[b] {
			return true
		}
		for lb := range body {
			return b.Parent() != lb.Parent()
		}
		return false
	}
	switch x := v.(type) {
	case *ssa.Alloc:
		return inLoop(x.Block())
	case *ssa.MakeSlice:
		return inLoop(x.Block())
	case *ssa.Slice:
		return allocatedIn(x.X, body)
	case *ssa.UnOp:
		// load of a local that is assigned exactly once, in the loop, from an allocation
		if a, ok := x.X.(*ssa.Alloc); ok && x.Op == token.MUL {
			var src ssa.Value
			n := 0
			for _, ref := range *a.Referrers() {
				if st, isStore := ref.(*ssa.Store); isStore && st.Addr == a {
					n++
					src = st.Val
				}
			}
			if n == 1 && src != nil && inLoop(a.Block()) {
				return allocatedIn(src, body)
			}
			if n == 1 && src != nil {
				if in, ok2 := src.(ssa.Instruction); ok2 && inLoop(in.Block()) {
					return allocatedIn(src, body)
				}
			}
		}
	}
	return false
}

func chanKeys() []HeapKey {
	return []HeapKey{{"CH$len", "(Array Int Int)"}, {"CH$closed", "(Array Int Bool)"}}
}

func (fx *FuncCtx) staticAddrKeys(addr ssa.Value, cellSet map[ssa.Value]bool, keySet map[string]HeapKey) {
	switch a := addr.(type) {
	case *ssa.Alloc:
		if !fx.allocIsObject(a) {
			cellSet[a] = true
		} else {
			// whole-struct store into a heap object
			t := a.Type().Underlying().(*types.Pointer).Elem()
			for _, c := range fx.mode.comps(t) {
				p, suf := splitSuffix(c.suffix)
				k := fx.fieldKey(t, p, comp{suffix: suf, sort: c.sort, kind: c.kind})
				keySet[k.Key] = k
				fx.noteEff(k.Key, a)
			}
		}
	case *ssa.FreeVar:
		cellSet[a] = true
	case *ssa.FieldAddr:
		root, path, base := fx.staticFieldPath(a)
		ft := a.Type().Underlying().(*types.Pointer).Elem()
		if base != nil {
			if al, ok := base.(*ssa.Alloc); ok && !fx.allocIsObject(al) {
				cellSet[al] = true
				return
			}
			if _, ok := base.(*ssa.IndexAddr); ok {
				fx.staticAddrKeys(base, cellSet, keySet)
				return
			}
		}
		for _, c := range fx.mode.comps(ft) {
			k := fx.fieldKey(root, path, c)
			keySet[k.Key] = k
			fx.noteEff(k.Key, base)
		}
	case *ssa.IndexAddr:
		var et types.Type
		switch xt := a.X.Type().Underlying().(type) {
		case *types.Slice:
			et = xt.Elem()
		case *types.Pointer:
			if at, ok := xt.Elem().Underlying().(*types.Array); ok {
				et = at.Elem()
			}
		}
		if et == nil {
			return
		}
		for _, c := range fx.mode.comps(et) {
			k := fx.elemKey(et, c)
			keySet[k.Key] = k
			fx.noteEff(k.Key, a.X)
		}
	case *ssa.Global:
		t := a.Type().Underlying().(*types.Pointer).Elem()
		for _, c := range fx.mode.comps(t) {
			k := fx.globalKey(a, c)
			keySet[k.Key] = k
		}
	default:
		pt, ok := addr.Type().Underlying().(*types.Pointer)
		if !ok {
			return
		}
		t := pt.Elem()
		if _, isStruct := t.Underlying().(*types.Struct); isStruct && !isOpaqueSync(t) && !isTime(t) {
			// whole-struct store through an object reference
			for _, c := range fx.mode.comps(t) {
				p, suf := splitSuffix(c.suffix)
				k := fx.fieldKey(t, p, comp{suffix: suf, sort: c.sort, kind: c.kind})
				keySet[k.Key] = k
				fx.noteEff(k.Key, addr)
			}
			return
		}
		if al := fx.traceAlias(addr); al != nil && al != addr {
			fx.staticAddrKeys(al, cellSet, keySet)
			return
		}
		fx.failf("store through pointer %s (%s) inside a loop: target not resolvable statically", addr.Name(), addr.Type())
	}
}

func splitSuffix(s string) (path, suf string) {
	s = strings.TrimPrefix(s, ".")
	if i := strings.Index(s, "!"); i >= 0 {
		return s[:i], s[i:]
	}
	return s, ""
}

// traceAlias follows a pointer value of an inlined callee back to the caller's value: parameters to the argument at
// the call site, loads of parameter spills to the parameter.
func (fx *FuncCtx) traceAlias(v ssa.Value) ssa.Value {
	for n := 0; n < 16; n++ {
		switch x := v.(type) {
		case *ssa.Parameter:
			if x.Parent() == fx.fn {
				return v
			}
			a := fx.paramAlias[x]
			if a == nil {
				return nil
			}
			v = a
		case *ssa.UnOp:
			al, ok := x.X.(*ssa.Alloc)
			if !ok || x.Op != token.MUL || fx.allocIsObject(al) {
				return v
			}
			var src ssa.Value
			cnt := 0
			for _, ref := range *al.Referrers() {
				if sto, isStore := ref.(*ssa.Store); isStore && sto.Addr == al {
					cnt++
					src = sto.Val
				}
			}
			if _, isParam := src.(*ssa.Parameter); !isParam || cnt != 1 {
				return v
			}
			v = src
		default:
			return v
		}
	}
	return v
}

// staticFieldPath resolves nested FieldAddr chains: root struct type, dotted path; base = innermost non-FieldAddr value.
func (fx *FuncCtx) staticFieldPath(fa *ssa.FieldAddr) (root types.Type, path string, base ssa.Value) {
	st := fa.X.Type().Underlying().(*types.Pointer).Elem()
	name := st.Underlying().(*types.Struct).Field(fa.Field).Name()
	if inner, ok := fa.X.(*ssa.FieldAddr); ok {
		r, p, b := fx.staticFieldPath(inner)
		return r, p + "." + name, b
	}
	return st, name, fa.X
}

func (fx *FuncCtx) allocIsObject(a *ssa.Alloc) bool {
	t := a.Type().Underlying().(*types.Pointer).Elem()
	if isOpaqueSync(t) || isTime(t) {
		return false
	}
	_, ok := t.Underlying().(*types.Struct)
	return ok
}

// ---------------------------------------------------------------- values

func (fx *FuncCtx) val(st *State, v ssa.Value) Val {
	switch v := v.(type) {
	case *ssa.Const:
		return fx.constVal(v)
	case *ssa.Global:
		return Val{T: v.Type(), L: &Loc{Kind: LocGlobal, Glob: v, T: v.Type().Underlying().(*types.Pointer).Elem()}}
	case *ssa.Function:
		return Val{T: v.Type(), C: []string{fx.eng.fnID(v)}, Fn: v}
	case *ssa.Builtin:
		return Val{T: v.Type()}
	}
	if r, ok := st.regs[v]; ok {
		return r
	}
	panic(fmt.Sprintf("%s: no value for %s (%T)", fx.key, v.Name(), v))
}

func (fx *FuncCtx) constVal(c *ssa.Const) Val {
	t := c.Type()
	if c.Value == nil {
		// zero value / nil
		return Val{T: t, C: fx.zeroVal(t)}
	}
	switch c.Value.Kind() {
	case constant.Bool:
		if constant.BoolVal(c.Value) {
			return Val{T: t, C: []string{"true"}}
		}
		return Val{T: t, C: []string{"false"}}
	case constant.Int:
		bi, _ := new(big.Int).SetString(c.Value.ExactString(), 10)
		if isReal(t) {
			return Val{T: t, C: []string{fx.mode.num(bi, "Real")}}
		}
		v := Val{T: t, C: []string{fx.mode.num(bi, fx.mode.intSort(t))}}
		if bi.Sign() >= 0 {
			fx.ar.maxBits[v.C[0]] = bi.BitLen()
		}
		return v
	case constant.String:
		return Val{T: t, C: []string{fx.decls.strConst(constant.StringVal(c.Value))}}
	case constant.Float:
		f, _ := constant.Float64Val(c.Value)
		r := new(big.Rat).SetFloat64(f)
		s := sx("/", r.Num().String()+".0", r.Denom().String()+".0")
		if r.Sign() < 0 {
			s = sx("-", sx("/", new(big.Int).Neg(r.Num()).String()+".0", r.Denom().String()+".0"))
		}
		return Val{T: t, C: []string{s}}
	}
	fx.failf("constant %s", c)
	return Val{}
}

func (fx *FuncCtx) zeroVal(t types.Type) []string {
	var out []string
	for _, c := range fx.mode.comps(t) {
		switch c.kind {
		case "str":
			out = append(out, fx.decls.strConst(""))
		case "arr":
			u := t.Underlying().(*types.Array)
			ec := fx.mode.comps(u.Elem())[0]
			out = append(out, "((as const "+c.sort+") "+fx.mode.zeroOfComp(ec)+")")
		default:
			out = append(out, fx.mode.zeroOfComp(c))
		}
	}
	return out
}

func (fx *FuncCtx) set(st *State, v ssa.Value, x Val) { st.regs[v] = x }

// ---------------------------------------------------------------- instructions

// flushOnce marks the Once objects whose body (executed in place) has returned to this frame as done.
func (fx *FuncCtx) flushOnce(st *State) {
	if len(st.onceRun) == 0 {
		return
	}
	var keep []onceRec
	for _, o := range st.onceRun {
		if o.depth >= len(st.frames) {
			k := HeapKey{"ONCE$done", "(Array Int Bool)"}
			fx.heapSet(st, k, sx("store", fx.heapGet(st.heap, k), o.ref, "true"))
		} else {
			keep = append(keep, o)
		}
	}
	st.onceRun = keep
}

func (fx *FuncCtx) exec(st *State, in ssa.Instruction) {
	fx.flushOnce(st)
	switch in := in.(type) {
	case *ssa.DebugRef:
		return
	case *ssa.Alloc:
		fx.execAlloc(st, in)
	case *ssa.Store:
		addr := fx.val(st, in.Addr)
		v := fx.val(st, in.Val)
		fx.storeTo(st, addr, v, in.Pos())
	case *ssa.UnOp:
		fx.execUnOp(st, in)
	case *ssa.BinOp:
		fx.set(st, in, fx.binop(st, in.Op, fx.val(st, in.X), fx.val(st, in.Y), in.Type(), in.Pos()))
	case *ssa.FieldAddr:
		fx.execFieldAddr(st, in)
	case *ssa.Field:
		x := fx.val(st, in.X)
		s := x.T.Underlying().(*types.Struct)
		name := s.Field(in.Field).Name()
		out := Val{T: in.Type()}
		pre := "." + name
		for j, c := range fx.mode.comps(x.T) {
			if c.suffix == pre || strings.HasPrefix(c.suffix, pre+".") || strings.HasPrefix(c.suffix, pre+"!") {
				out.C = append(out.C, x.C[j])
			}
		}
		fx.set(st, in, out)
	case *ssa.IndexAddr:
		fx.execIndexAddr(st, in)
	case *ssa.Slice:
		fx.execSlice(st, in)
	case *ssa.MakeSlice:
		n := fx.val(st, in.Len)
		c := fx.val(st, in.Cap)
		fx.set(st, in, fx.makeSlice(st, in.Type(), fx.toLen(n), fx.toLen(c), in.Pos()))
	case *ssa.MakeMap:
		r := fx.newRef(st, "map")
		mt := in.Type().Underlying().(*types.Map)
		dom, _, kc, _ := fx.mapKeys(mt)
		fx.heapSet(st, dom, sx("store", fx.heapGet(st.heap, dom), r, "((as const (Array "+kc.sort+" Bool)) false)"))
		lk := HeapKey{"ML$" + sanitize(typeStr(mt)), "(Array Int Int)"}
		fx.heapSet(st, lk, sx("store", fx.heapGet(st.heap, lk), r, "0"))
		fx.set(st, in, Val{T: in.Type(), C: []string{r}})
	case *ssa.MakeChan:
		r := fx.newRef(st, "chan")
		sz := fx.val(st, in.Size)
		kl, kc, kcl := HeapKey{"CH$len", "(Array Int Int)"}, HeapKey{"CH$cap", "(Array Int Int)"}, HeapKey{"CH$closed", "(Array Int Bool)"}
		fx.heapSet(st, kl, sx("store", fx.heapGet(st.heap, kl), r, "0"))
		fx.heapSet(st, kc, sx("store", fx.heapGet(st.heap, kc), r, fx.toMath(sz)))
		fx.heapSet(st, kcl, sx("store", fx.heapGet(st.heap, kcl), r, "false"))
		fx.set(st, in, Val{T: in.Type(), C: []string{r}})
	case *ssa.MakeInterface:
		fx.set(st, in, fx.makeInterface(st, in.Type(), fx.val(st, in.X)))
	case *ssa.MakeClosure:
		fn := in.Fn.(*ssa.Function)
		r := fx.newRef(st, "clos")
		v := Val{T: in.Type(), C: []string{r}, Fn: fn}
		for _, b := range in.Bindings {
			v.Bind = append(v.Bind, fx.val(st, b))
		}
		fx.closureCreated(st, in, v)
		fx.set(st, in, v)
	case *ssa.ChangeType:
		x := fx.val(st, in.X)
		x.T = in.Type()
		fx.set(st, in, x)
	case *ssa.ChangeInterface:
		x := fx.val(st, in.X)
		x.T = in.Type()
		fx.set(st, in, x)
	case *ssa.Convert:
		fx.execConvert(st, in)
	case *ssa.TypeAssert:
		fx.execTypeAssert(st, in)
	case *ssa.Extract:
		t := fx.val(st, in.Tuple)
		if t.Tup == nil {
			fx.failf("extract from non-tuple")
		}
		fx.set(st, in, t.Tup[in.Index])
	case *ssa.Phi:
		for i, p := range in.Block().Preds {
			if p == st.prev {
				fx.set(st, in, fx.val(st, in.Edges[i]))
				return
			}
		}
		fx.failf("phi without matching predecessor")
	case *ssa.Call:
		if callee := fx.inlinable(st, in.Common(), nil); callee != nil {
			var args []Val
			for _, a := range in.Call.Args {
				args = append(args, fx.val(st, a))
			}
			fnv := fx.val(st, in.Call.Value)
			fx.inlineCall(st, in, callee, fnv, args, false)
			return
		}
		res := fx.call(st, in.Common(), in, in.Pos())
		if !st.dead {
			fx.set(st, in, res)
		}
	case *ssa.Defer:
		d := deferred{call: in.Common(), pos: in.Pos()}
		for _, a := range in.Call.Args {
			d.args = append(d.args, fx.val(st, a))
		}
		if !in.Call.IsInvoke() {
			d.fn = fx.val(st, in.Call.Value)
		} else {
			d.fn = fx.val(st, in.Call.Value)
		}
		st.defers = append(st.defers, d)
	case *ssa.RunDefers:
		for len(st.defers) > 0 {
			d := st.defers[len(st.defers)-1]
			st.defers = st.defers[:len(st.defers)-1]
			if callee := fx.inlinable(st, d.call, &d.fn); callee != nil {
				// run the deferred body, then come back to this RunDefers for the remaining ones
				fx.inlineCall(st, in, callee, d.fn, d.args, true)
				return
			}
			fx.callWith(st, d.call, d.fn, d.args, nil, d.pos)
			if st.dead {
				return
			}
		}
	case *ssa.Lookup:
		fx.execLookup(st, in)
	case *ssa.MapUpdate:
		fx.execMapUpdate(st, in)
	case *ssa.Select:
		fx.execSelect(st, in)
	case *ssa.Send:
		fx.execSend(st, in)
	case *ssa.Range:
		fx.execRange(st, in)
	case *ssa.Next:
		fx.execNext(st, in)
	case *ssa.Go:
		fx.execGo(st, in)
	default:
		fx.failf("instruction %T (%s)", in, in)
	}
}

func (fx *FuncCtx) execAlloc(st *State, in *ssa.Alloc) {
	t := in.Type().Underlying().(*types.Pointer).Elem()
	if in.Comment == "defer$stack" {
		st.regs[in] = Val{T: in.Type(), L: &Loc{Kind: LocCell, Cell: in, T: t}}
		st.cells[in] = Val{T: t}
		return
	}
	if at, ok := t.Underlying().(*types.Array); ok && in.Comment == "varargs" {
		if st.vararg == nil {
			st.vararg = map[ssa.Value][]Val{}
		}
		st.vararg[in] = make([]Val, at.Len())
		st.regs[in] = Val{T: in.Type(), L: &Loc{Kind: LocVararg, Cell: in, T: t}}
		return
	}
	if at, ok := t.Underlying().(*types.Array); ok {
		// an array object: elements live in the element heap at a fresh base (like make)
		r := fx.newRef(st, "arr")
		for _, ec := range fx.mode.comps(at.Elem()) {
			k := fx.elemKey(at.Elem(), ec)
			z := fx.mode.zeroOfComp(ec)
			if ec.kind == "str" {
				z = fx.decls.strConst("")
			}
			fx.heapSet(st, k, sx("store", fx.heapGet(st.heap, k), r, "((as const (Array "+fx.mode.lenSort()+" "+ec.sort+")) "+z+")"))
		}
		st.regs[in] = Val{T: in.Type(), C: []string{r}}
		return
	}
	if fx.allocIsObject(in) {
		r := fx.newRef(st, "new$"+typeStr(t))
		fx.zeroObject(st, t, r)
		st.regs[in] = Val{T: in.Type(), C: []string{r}}
		return
	}
	st.regs[in] = Val{T: in.Type(), L: &Loc{Kind: LocCell, Cell: in, T: t}}
	if len(fx.mode.compsSafe(t)) == 0 && !isOpaqueSync(t) {
		// unsupported composite local; keep an empty cell, fail on use
	}
	st.cells[in] = Val{T: t, C: fx.zeroVal(t)}
}

func (m Mode) compsSafe(t types.Type) (cs []comp) {
	defer func() {
		if r := recover(); r != nil {
			cs = nil
		}
	}()
	return m.comps(t)
}

func (fx *FuncCtx) zeroObject(st *State, t types.Type, r string) {
	for _, c := range fx.mode.comps(t) {
		p, suf := splitSuffix(c.suffix)
		k := fx.fieldKey(t, p, comp{suffix: suf, sort: c.sort, kind: c.kind})
		z := fx.mode.zeroOfComp(c)
		if c.kind == "str" {
			z = fx.decls.strConst("")
		}
		fx.heapSet(st, k, sx("store", fx.heapGet(st.heap, k), r, z))
	}
	// ghost fields start at their zero
	if nt := namedOf(t); nt != nil {
		for _, gf := range fx.eng.ghostFieldsOf(nt) {
			cs := fx.mode.comps(gf.T)
			k := fx.fieldKey(nt, "ghost$"+gf.Name, cs[0])
			fx.heapSet(st, k, sx("store", fx.heapGet(st.heap, k), r, fx.ghostZero(gf.T)))
		}
	}
	// a sync.Once inside a new object has not run
	if _, used := st.heap["ONCE$done"]; used || true {
		ok := HeapKey{"ONCE$done", "(Array Int Bool)"}
		fx.heapSet(st, ok, sx("store", fx.heapGet(st.heap, ok), r, "false"))
	}
}

func (fx *FuncCtx) ghostZero(t types.Type) string {
	switch g := t.(type) {
	case *GhostSet:
		return "((as const " + fx.mode.comps(t)[0].sort + ") false)"
	case *GhostMap:
		return "((as const " + fx.mode.comps(t)[0].sort + ") " + fx.ghostZero(g.V) + ")"
	}
	cs := fx.mode.comps(t)
	if cs[0].kind == "str" {
		return fx.decls.strConst("")
	}
	return fx.mode.zeroOfComp(cs[0])
}

func (fx *FuncCtx) nilCheck(st *State, ref string, pos token.Pos, what string) {
	if st.freshRefs[ref] {
		return
	}
	fx.oblige(st, "safe", "nil", not(eq(ref, "0")), pos, "nil dereference: "+what)
	st.assume(not(eq(ref, "0")))
}

func (fx *FuncCtx) execFieldAddr(st *State, in *ssa.FieldAddr) {
	x := fx.val(st, in.X)
	sT := in.X.Type().Underlying().(*types.Pointer).Elem()
	f := sT.Underlying().(*types.Struct).Field(in.Field)
	ft := f.Type()
	var l *Loc
	switch {
	case x.L == nil:
		fx.nilCheck(st, x.s(), in.Pos(), "field "+f.Name())
		l = &Loc{Kind: LocField, Ref: x.s(), Root: sT, Path: f.Name(), T: ft}
	case x.L.Kind == LocField:
		l = &Loc{Kind: LocField, Ref: x.L.Ref, Root: x.L.Root, Path: x.L.Path + "." + f.Name(), T: ft}
	case x.L.Kind == LocCell:
		l = &Loc{Kind: LocCell, Cell: x.L.Cell, Sub: x.L.Sub + "." + f.Name(), T: ft}
	case x.L.Kind == LocElem:
		root := x.L.Root
		if root == nil {
			root = x.L.T
		}
		l = &Loc{Kind: LocElem, Base: x.L.Base, Idx: x.L.Idx, Root: root, Sub: x.L.Sub + "." + f.Name(), T: ft}
	default:
		fx.failf("field address of %v", x.L.Kind)
	}
	fx.set(st, in, Val{T: in.Type(), L: l})
}

func (fx *FuncCtx) toLen(v Val) string {
	if fx.mode == ModeInt {
		return v.s()
	}
	b, _, ok := intInfo(v.T)
	if ok && b == 64 {
		return v.s()
	}
	return fx.ar.conv(v.s(), v.T, types.Typ[types.Int], false)
}

func (fx *FuncCtx) toMath(v Val) string {
	if fx.mode == ModeInt {
		return v.s()
	}
	fx.failf("bv to int bridge needed")
	return ""
}

func (fx *FuncCtx) lenCmp(op, a, b string) string {
	return fx.ar.cmp(op, a, b, types.Typ[types.Int])
}

func (fx *FuncCtx) lenNum(i int64) string { return fx.mode.num(big.NewInt(i), fx.mode.lenSort()) }

func (fx *FuncCtx) lenOp(op, a, b string) string {
	r, _ := fx.ar.binop(op, a, b, types.Typ[types.Int], types.Typ[types.Int], fx.mode == ModeInt)
	return r
}

func (fx *FuncCtx) execIndexAddr(st *State, in *ssa.IndexAddr) {
	x := fx.val(st, in.X)
	i := fx.val(st, in.Index)
	switch xt := in.X.Type().Underlying().(type) {
	case *types.Slice:
		idx := fx.toLen(i)
		fx.oblige(st, "safe", "index", and(fx.lenCmp("<=", fx.lenNum(0), idx), fx.lenCmp("<", idx, x.C[2])), in.Pos(), "index in range")
		st.assume(and(fx.lenCmp("<=", fx.lenNum(0), idx), fx.lenCmp("<", idx, x.C[2])))
		l := &Loc{Kind: LocElem, Base: x.C[0], Idx: fx.lenOp("+", x.C[1], idx), T: xt.Elem()}
		fx.set(st, in, Val{T: in.Type(), L: l})
	case *types.Pointer:
		if at, isArr := xt.Elem().Underlying().(*types.Array); isArr && x.L == nil && len(x.C) == 1 {
			idx := fx.toLen(i)
			g := and(fx.lenCmp("<=", fx.lenNum(0), idx), fx.lenCmp("<", idx, fx.lenNum(at.Len())))
			fx.oblige(st, "safe", "index", g, in.Pos(), "index in range")
			st.assume(g)
			fx.set(st, in, Val{T: in.Type(), L: &Loc{Kind: LocElem, Base: x.C[0], Idx: idx, T: at.Elem()}})
			return
		}
		if x.L != nil && x.L.Kind == LocVararg {
			c, ok := in.Index.(*ssa.Const)
			if !ok {
				fx.failf("non-constant index into variadic argument array")
			}
			at := xt.Elem().Underlying().(*types.Array)
			fx.set(st, in, Val{T: in.Type(), L: &Loc{Kind: LocVararg, Cell: x.L.Cell, Idx: fmt.Sprint(c.Int64()), T: at.Elem()}})
			return
		}
		fx.failf("index address into %s", typeStr(in.X.Type()))
	default:
		fx.failf("index address into %s", typeStr(in.X.Type()))
	}
}

func (fx *FuncCtx) execSlice(st *State, in *ssa.Slice) {
	x := fx.val(st, in.X)
	if x.L != nil && x.L.Kind == LocVararg && in.Low == nil && in.High == nil {
		// the variadic pack keeps its element values (engine level); as a slice it is a fresh array of unknown content
		n := int64(len(st.vararg[x.L.Cell]))
		v := fx.makeSliceUnknown(st, in.Type(), fx.lenNum(n))
		v.Tup = append([]Val(nil), st.vararg[x.L.Cell]...)
		fx.set(st, in, v)
		return
	}
	if pt, ok := in.X.Type().Underlying().(*types.Pointer); ok {
		if at, isArr := pt.Elem().Underlying().(*types.Array); isArr && len(x.C) == 1 {
			n := fx.lenNum(at.Len())
			x = Val{T: types.NewSlice(at.Elem()), C: []string{x.C[0], fx.lenNum(0), n, n}}
		} else {
			fx.failf("slice of %s", typeStr(in.X.Type()))
		}
	} else if _, ok := in.X.Type().Underlying().(*types.Slice); !ok {
		fx.failf("slice of %s", typeStr(in.X.Type()))
	}
	lo := fx.lenNum(0)
	if in.Low != nil {
		lo = fx.toLen(fx.val(st, in.Low))
	}
	hi := x.C[2]
	if in.High != nil {
		hi = fx.toLen(fx.val(st, in.High))
	}
	mx := x.C[3]
	if in.Max != nil {
		mx = fx.toLen(fx.val(st, in.Max))
	}
	g := and(fx.lenCmp("<=", fx.lenNum(0), lo), fx.lenCmp("<=", lo, hi), fx.lenCmp("<=", hi, mx), fx.lenCmp("<=", mx, x.C[3]))
	fx.oblige(st, "safe", "slice", g, in.Pos(), "slice bounds in range")
	st.assume(g)
	fx.set(st, in, Val{T: in.Type(), C: []string{x.C[0], fx.lenOp("+", x.C[1], lo), fx.lenOp("-", hi, lo), fx.lenOp("-", mx, lo)}})
}

func (fx *FuncCtx) makeSlice(st *State, t types.Type, n, c string, pos token.Pos) Val {
	g := and(fx.lenCmp("<=", fx.lenNum(0), n), fx.lenCmp("<=", n, c))
	fx.oblige(st, "safe", "make", g, pos, "make: 0 <= len <= cap")
	st.assume(g)
	r := fx.newRef(st, "arr")
	et := t.Underlying().(*types.Slice).Elem()
	for _, ec := range fx.mode.comps(et) {
		k := fx.elemKey(et, ec)
		z := fx.mode.zeroOfComp(ec)
		if ec.kind == "str" {
			z = fx.decls.strConst("")
		}
		fx.heapSet(st, k, sx("store", fx.heapGet(st.heap, k), r, "((as const (Array "+fx.mode.lenSort()+" "+ec.sort+")) "+z+")"))
	}
	return Val{T: t, C: []string{r, fx.lenNum(0), n, c}}
}

func (fx *FuncCtx) storeTo(st *State, addr Val, v Val, pos token.Pos) {
	if addr.L != nil {
		fx.checkFieldWrite(st, addr.L, v, pos)
		fx.store(st, addr.L, fx.adapt(v, addr.L.T))
		return
	}
	// pointer to a heap struct: whole-struct assignment
	if p, ok := addr.T.Underlying().(*types.Pointer); ok {
		if _, isStruct := p.Elem().Underlying().(*types.Struct); isStruct {
			fx.nilCheck(st, addr.s(), pos, "struct store")
			cs := fx.mode.comps(p.Elem())
			for i, c := range cs {
				pp, suf := splitSuffix(c.suffix)
				k := fx.fieldKey(p.Elem(), pp, comp{suffix: suf, sort: c.sort, kind: c.kind})
				fx.heapSet(st, k, sx("store", fx.heapGet(st.heap, k), addr.s(), v.C[i]))
			}
			return
		}
	}
	fx.failf("store through unsupported pointer %s", typeStr(addr.T))
}

// adapt a nil constant / untyped value to the target type's component layout
func (fx *FuncCtx) adapt(v Val, t types.Type) Val {
	n := len(fx.mode.compsSafe(t))
	if len(v.C) == n || v.Tup != nil {
		return v
	}
	if len(v.C) == 1 && v.C[0] == "0" {
		return Val{T: t, C: fx.zeroVal(t)}
	}
	return v
}

func (fx *FuncCtx) execUnOp(st *State, in *ssa.UnOp) {
	x := fx.val(st, in.X)
	switch in.Op {
	case token.MUL:
		if x.L != nil {
			fx.checkFieldRead(st, x.L, in.Pos())
			v := fx.load(st, st.heap, x.L)
			v.T = in.Type()
			if x.L.Kind != LocCell {
				fx.assumeTyping(st, v)
			}
			if x.L.Kind == LocField && len(v.C) == 1 {
				first := x.L.Path
				if i := strings.Index(first, "."); i >= 0 {
					first = first[:i]
				}
				if nt := namedOf(x.L.Root); nt != nil && nt.Obj().Pkg() != nil && nt.Obj().Pkg().Path() == "time" && nt.Obj().Name() == "Timer" && first == "C" {
					if fx.timerChans == nil {
						fx.timerChans = map[string]bool{}
					}
					fx.timerChans[v.C[0]] = true
				}
				cls, _ := fx.eng.fieldClass(namedOf(x.L.Root), first)
				if cls == "nonnilchan" || cls == "openchan+nonnil" {
					// only non-nil values are ever sent on this channel (declared; trusted, checked at the senders under contract)
					fx.decls.declare("CH$nonnil", "(Array Int Bool)")
					st.assume(sx("select", "CH$nonnil", v.C[0]))
					fx.trusted["field "+typeStr(x.L.Root)+"."+first+": only non-nil values are sent on this channel"] = true
				}
				if cls == "signal" {
					// a channel that is only ever closed, never sent to (declared; trusted)
					fx.decls.declare("CH$signal", "(Array Int Bool)")
					st.assume(sx("select", "CH$signal", v.C[0]))
					fx.trusted["field "+typeStr(x.L.Root)+"."+first+" is a signal channel: it is only closed, never sent to"] = true
				}
				if cls == "openchan" || cls == "openchan+nonnil" {
					// a channel that is never closed and never nil (declared; every close() under contract is checked against it)
					fx.decls.declare("CH$open", "(Array Int Bool)")
					st.assume(sx("select", "CH$open", v.C[0]))
					st.assume(not(eq(v.C[0], "0")))
					if fx.openChans == nil {
						fx.openChans = map[string]bool{}
					}
					fx.openChans[v.C[0]] = true
					fx.trusted["field "+typeStr(x.L.Root)+"."+first+" is never closed (close() calls in functions under contract are checked; others are not)"] = true
				}
			}
			if x.L.Kind == LocField && len(v.C) == 4 {
				first := x.L.Path
				if i := strings.Index(first, "."); i >= 0 {
					first = first[:i]
				}
				if cls, _ := fx.eng.fieldClass(namedOf(x.L.Root), first); cls == "owned" {
					fx.assumeOwnedDistinct(st, v.C[0])
				}
			}
			if cell, ok := st.cells[x.L.Cell]; ok && x.L.Kind == LocCell && x.L.Sub == "" {
				v.Fn, v.Bind, v.Tup = cell.Fn, cell.Bind, cell.Tup
			}
			fx.set(st, in, v)
			return
		}
		if p, ok := x.T.Underlying().(*types.Pointer); ok {
			if _, isStruct := p.Elem().Underlying().(*types.Struct); isStruct {
				fx.nilCheck(st, x.s(), in.Pos(), "struct load")
				out := Val{T: in.Type()}
				for _, c := range fx.mode.comps(p.Elem()) {
					pp, suf := splitSuffix(c.suffix)
					k := fx.fieldKey(p.Elem(), pp, comp{suffix: suf, sort: c.sort, kind: c.kind})
					out.C = append(out.C, sx("select", fx.heapGet(st.heap, k), x.s()))
				}
				fx.assumeTyping(st, out)
				fx.set(st, in, out)
				return
			}
		}
		fx.failf("load through unsupported pointer %s", typeStr(x.T))
	case token.NOT:
		fx.set(st, in, Val{T: in.Type(), C: []string{not(x.s())}})
	case token.SUB:
		if isReal(x.T) {
			fx.set(st, in, Val{T: in.Type(), C: []string{sx("-", x.s())}})
			return
		}
		if fx.mode == ModeBV {
			fx.set(st, in, Val{T: in.Type(), C: []string{sx("bvneg", x.s())}})
			return
		}
		r, _ := fx.ar.binop("-", "0", x.s(), x.T, x.T, false)
		fx.set(st, in, Val{T: in.Type(), C: []string{r}})
	case token.XOR:
		if fx.mode == ModeBV {
			fx.set(st, in, Val{T: in.Type(), C: []string{sx("bvnot", x.s())}})
			return
		}
		bits, signed, _ := intInfo(x.T)
		if signed {
			fx.set(st, in, Val{T: in.Type(), C: []string{sx("-", sx("-", x.s()), "1")}})
		} else {
			fx.set(st, in, Val{T: in.Type(), C: []string{sx("-", new(big.Int).Sub(pow2(bits), big.NewInt(1)).String(), x.s())}})
		}
	case token.ARROW:
		fx.execRecv(st, in, x)
	default:
		fx.failf("unary %s", in.Op)
	}
}

func (fx *FuncCtx) binop(st *State, op token.Token, x, y Val, rt types.Type, pos token.Pos) Val {
	ops := op.String()
	switch op {
	case token.EQL, token.NEQ:
		x = fx.adapt(x, y.T)
		y = fx.adapt(y, x.T)
		if len(x.C) != len(y.C) {
			fx.failf("comparison of values with different layouts: %s vs %s", typeStr(x.T), typeStr(y.T))
		}
		var parts []string
		for i := range x.C {
			parts = append(parts, eq(x.C[i], y.C[i]))
		}
		r := and(parts...)
		if op == token.NEQ {
			r = not(r)
		}
		return Val{T: rt, C: []string{r}}
	case token.LSS, token.LEQ, token.GTR, token.GEQ:
		if b, ok := x.T.Underlying().(*types.Basic); ok && b.Info()&types.IsString != 0 {
			fx.failf("string ordering")
		}
		return Val{T: rt, C: []string{fx.ar.cmp(ops, x.s(), y.s(), x.T)}}
	case token.LAND, token.LOR:
		fx.failf("logical op in value position")
	}
	if b, ok := x.T.Underlying().(*types.Basic); ok {
		if b.Info()&types.IsBoolean != 0 {
			switch op {
			case token.AND:
				return Val{T: rt, C: []string{and(x.s(), y.s())}}
			case token.OR:
				return Val{T: rt, C: []string{or(x.s(), y.s())}}
			}
		}
		if b.Info()&types.IsString != 0 && op == token.ADD {
			fx.decls.declareFun("str$concat", []string{"Str", "Str"}, "Str")
			return Val{T: rt, C: []string{sx("str$concat", x.s(), y.s())}}
		}
	}
	if op == token.QUO || op == token.REM {
		if !isReal(x.T) {
			z := fx.mode.num(big0(), fx.mode.intSort(y.T))
			fx.oblige(st, "safe", "div", not(eq(y.s(), z)), pos, "division by zero")
			st.assume(not(eq(y.s(), z)))
		}
	}
	r, side := fx.ar.binop(ops, x.s(), y.s(), x.T, y.T, false)
	for _, s := range side {
		st.assume(s)
	}
	return Val{T: rt, C: []string{r}}
}

func (fx *FuncCtx) execConvert(st *State, in *ssa.Convert) {
	x := fx.val(st, in.X)
	from, to := in.X.Type(), in.Type()
	_, _, fok := intInfo(from)
	_, _, tok := intInfo(to)
	switch {
	case (fok || isReal(from)) && (tok || isReal(to)):
		fx.set(st, in, Val{T: to, C: []string{fx.ar.conv(x.s(), from, to, false)}})
	default:
		// string <-> []byte etc.
		fb, fIsB := from.Underlying().(*types.Basic)
		tb, tIsB := to.Underlying().(*types.Basic)
		if fIsB && tIsB && fb.Info()&types.IsString != 0 && tb.Info()&types.IsString != 0 {
			x.T = to
			fx.set(st, in, x)
			return
		}
		if _, ok := to.Underlying().(*types.Slice); ok && fIsB && fb.Info()&types.IsString != 0 {
			// []byte(s): fresh array of unknown content
			n := fx.decls.fresh("strlen", fx.mode.lenSort())
			st.assume(fx.lenCmp("<=", fx.lenNum(0), n))
			fx.set(st, in, fx.makeSliceUnknown(st, to, n))
			return
		}
		if _, ok := from.Underlying().(*types.Slice); ok && tIsB && tb.Info()&types.IsString != 0 {
			fx.set(st, in, Val{T: to, C: []string{fx.decls.fresh("str", "Str")}})
			return
		}
		if len(fx.mode.comps(from)) == len(fx.mode.comps(to)) {
			x.T = to
			fx.set(st, in, x)
			return
		}
		fx.failf("conversion %s -> %s", typeStr(from), typeStr(to))
	}
}

// staleContractErr: a contract clause no longer fits the function it is attached to (it names a local, a call site or a
// loop the code does not have).  The clause cannot be established for this code: reported as a failed obligation.
type staleContractErr struct{ key, msg string }

func (e *staleContractErr) Error() string { return e.key + ": contract error: " + e.msg }

func (fx *FuncCtx) makeSliceUnknown(st *State, t types.Type, n string) Val {
	r := fx.newRef(st, "arr")
	et := t.Underlying().(*types.Slice).Elem()
	for _, ec := range fx.mode.comps(et) {
		k := fx.elemKey(et, ec)
		ua := fx.decls.fresh("unk", "(Array "+fx.mode.lenSort()+" "+ec.sort+")")
		fx.assumeArrayTyping(st, ua, et, ec)
		fx.heapSet(st, k, sx("store", fx.heapGet(st.heap, k), r, ua))
	}
	return Val{T: t, C: []string{r, fx.lenNum(0), n, n}}
}

func (fx *FuncCtx) makeInterface(st *State, it types.Type, x Val) Val {
	tag := fx.eng.typeTag(x.T)
	cs := fx.mode.comps(x.T)
	if len(cs) == 1 && cs[0].kind == "ref" {
		b := x.Bind
		if x.Fn == nil {
			b = []Val{x}
		}
		return Val{T: it, C: []string{tag, x.C[0]}, Fn: x.Fn, Bind: b}
	}
	// box the value
	r := fx.newRef(st, "box")
	for i, c := range cs {
		k := HeapKey{"BOX$" + sanitize(typeStr(x.T)) + c.suffix, "(Array Int " + c.sort + ")"}
		fx.heapSet(st, k, sx("store", fx.heapGet(st.heap, k), r, x.C[i]))
	}
	return Val{T: it, C: []string{tag, r}, Bind: []Val{x}}
}

func (fx *FuncCtx) unbox(st *State, t types.Type, data string) Val {
	cs := fx.mode.comps(t)
	if len(cs) == 1 && cs[0].kind == "ref" {
		return Val{T: t, C: []string{data}}
	}
	out := Val{T: t}
	for _, c := range cs {
		k := HeapKey{"BOX$" + sanitize(typeStr(t)) + c.suffix, "(Array Int " + c.sort + ")"}
		out.C = append(out.C, sx("select", fx.heapGet(st.heap, k), data))
	}
	return out
}

func (fx *FuncCtx) execTypeAssert(st *State, in *ssa.TypeAssert) {
	x := fx.val(st, in.X)
	var ok string
	var res Val
	if _, isIface := in.AssertedType.Underlying().(*types.Interface); isIface {
		// interface-to-interface: succeeds iff non-nil and the dynamic type implements it (unknown unless static type already does)
		if types.Implements(in.X.Type(), in.AssertedType.Underlying().(*types.Interface)) || types.AssignableTo(in.X.Type(), in.AssertedType) {
			ok = not(eq(x.C[0], "0"))
		} else {
			u := fx.decls.fresh("implements", "Bool")
			ok = and(not(eq(x.C[0], "0")), u)
		}
		res = Val{T: in.AssertedType, C: []string{ite(ok, x.C[0], "0"), ite(ok, x.C[1], "0")}}
	} else {
		ok = eq(x.C[0], fx.eng.typeTag(in.AssertedType))
		res = fx.unbox(st, in.AssertedType, x.C[1])
		fx.assumeTyping(st, res)
	}
	if in.CommaOk {
		fx.set(st, in, Val{T: in.Type(), Tup: []Val{res, {T: BoolT, C: []string{ok}}}})
		return
	}
	fx.oblige(st, "safe", "typeassert", ok, in.Pos(), "type assertion to "+typeStr(in.AssertedType)+" succeeds")
	st.assume(ok)
	fx.set(st, in, res)
}

// ---------------------------------------------------------------- return

func (fx *FuncCtx) doReturn(st *State, in *ssa.Return) {
	if len(st.frames) == 0 {
		fx.flushOnce(st)
	}
	// reachability: at least one returning path of the function must be satisfiable
	rq := &Query{Obl: strings.TrimPrefix(fx.pc.Path[len(modPath):]+"."+fx.key+"/vacuity[return]", "/"), Kind: "vacuity", Hyps: st.hyps.list(), Goal: "false", Pos: fx.posStr(in.Pos()), Canary: true, AnyOf: fx.key, Trail: strings.Join(st.trail, ","), fx: fx}
	fx.queries = append(fx.queries, rq)
	var results []Val
	for _, r := range in.Results {
		results = append(results, fx.val(st, r))
	}
	env := fx.localsEnv(st, st.heap, map[string]string{})
	sig := fx.fn.Signature.Results()
	for i, n := range fx.fc.Results {
		if i < len(results) && n != "_" {
			env.vars[n] = results[i]
		}
	}
	for i := 0; i < sig.Len() && i < len(results); i++ {
		if n := sig.At(i).Name(); n != "" && n != "_" {
			if _, dup := env.vars[n]; !dup || true {
				env.vars[n] = results[i]
			}
		}
	}
	// parameters named in the contract refer to entry values
	for k, v := range fx.paramVals {
		env.vars[k] = v
	}
	for i, n := range fx.fc.Results {
		if i < len(results) && n != "_" {
			env.vars[n] = results[i]
		}
	}
	fx.runGhost(st, "return", env, in.Pos())
	env.cur = st.heap
	for name, m := range st.held {
		if m != "" && !fx.lockedAtEntry(name) {
			fx.oblige(st, "held", "released:"+name, "false", in.Pos(), "mutex still held at return")
		}
	}
	for i, en := range fx.fc.Ensures {
		label := en.Name
		if label == "" {
			label = fmt.Sprintf("#%d", i+1)
		}
		var side []string
		env.side = &side
		t := env.boolTerm(en.E)
		for _, s := range side {
			st.assume(s)
		}
		fx.oblige(st, "post", label, t, in.Pos(), en.Src)
	}
	fx.frameObligations(st, env, in.Pos())
}

func (fx *FuncCtx) lockedAtEntry(key string) bool {
	return len(fx.fc.Locked) > 0 // refined: any locked function keeps its locks
}

// verifyEnv: an environment action (no Go body) must preserve the monitor invariants of its receiver type.
func (e *Engine) verifyEnv(pc *PkgContracts, fc *FuncContract, key string) (fx *FuncCtx, err error) {
	fx = &FuncCtx{eng: e, fc: fc, pc: pc, key: key, mode: fc.Mode, keySorts: map[string]string{}, refKeys: map[string]int{}, mapKeySort: map[string]string{}, intElemKeys: map[string]types.Type{},
		opaques: map[string]*opaqueInfo{}, opaqueUsed: map[string]bool{}, trusted: map[string]bool{}, reveal: map[string]bool{}, pkg: e.typesPkg(pc.Path), paramVals: map[string]Val{}}
	fx.decls = newDecls()
	fx.ar = newArith(fx.mode, fx.decls)
	for g := range e.errGlobals {
		fx.decls.declare(g+"!tag@0", "Int")
		fx.decls.declare(g+"!data@0", "Int")
	}
	defer func() {
		if r := recover(); r != nil {
			switch x := r.(type) {
			case unsupported:
				err = fmt.Errorf("%s: %v", key, x)
			case specErr:
				err = &staleContractErr{key: key, msg: x.msg}
			default:
				panic(r)
			}
		}
	}()
	tn, ok := fx.pkg.Scope().Lookup(fc.RecvType).(*types.TypeName)
	if !ok {
		fx.failf("env %s: unknown receiver type %s", key, fc.RecvType)
	}
	nt := tn.Type().(*types.Named)
	st := &State{regs: map[ssa.Value]Val{}, cells: map[ssa.Value]Val{}, heap: map[string]string{}, held: map[string]string{}, inLoop: map[*ssa.BasicBlock]bool{}, freshRefs: map[string]bool{}, callN: map[string]int{}}
	fx.entryTop = fx.decls.declare("alloc$top@entry", "Int")
	st.heap["alloc$top"] = fx.entryTop
	recv := fx.freshVal("p$"+fc.Recv, types.NewPointer(nt))
	st.assume(not(eq(recv.s(), "0")))
	fx.paramVals[fc.Recv] = recv
	env := fx.specEnv(st, st.heap, st.heap)
	for _, inv := range e.invariantsOf(nt) {
		ne := env.with(map[string]Val{inv.Recv: recv})
		var side []string
		ne.side = &side
		t := ne.boolTerm(inv.E)
		for _, s := range side {
			st.assume(s)
		}
		st.assume(t)
	}
	env.atEntry = true
	for _, rq := range fc.Requires {
		var side []string
		env.side = &side
		t := env.boolTerm(rq.E)
		for _, s := range side {
			st.assume(s)
		}
		st.assume(t)
	}
	env.atEntry = false
	fx.canary(st, "entry", token.NoPos)
	old := copyMap(st.heap)
	genv := fx.specEnv(st, st.heap, old)
	fx.runGhost(st, "env", genv, token.NoPos)
	env2 := fx.specEnv(st, st.heap, old)
	for _, inv := range e.invariantsOf(nt) {
		ne := env2.with(map[string]Val{inv.Recv: recv})
		ne.cur = st.heap
		t := ne.boolTerm(inv.E)
		fx.oblige(st, "stable", inv.Name, t, token.NoPos, "invariant "+inv.Name+" is preserved by environment action "+key+": "+inv.Src)
	}
	for i, en := range fc.Ensures {
		label := en.Name
		if label == "" {
			label = fmt.Sprintf("#%d", i+1)
		}
		env2.cur = st.heap
		fx.oblige(st, "post", label, env2.boolTerm(en.E), token.NoPos, en.Src)
	}
	fx.trusted["environment action "+key+" models the Go runtime (its occurrence and effect are assumptions; only the stability of the invariant under it is proved)"] = true
	return fx, nil
}
