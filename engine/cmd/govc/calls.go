package main

import (
	"fmt"
	"go/token"
	"go/types"
	"sort"
	"strings"

	"golang.org/x/tools/go/ssa"
)

func mutexKey(l *Loc) string {
	switch l.Kind {
	case LocField:
		return l.Ref + "." + l.Path
	case LocGlobal:
		return "G." + l.Glob.Name()
	case LocCell:
		return "cell." + l.Cell.Name() + l.Sub
	}
	return "?"
}

func (fx *FuncCtx) call(st *State, cc *ssa.CallCommon, instr ssa.Instruction, pos token.Pos) Val {
	var args []Val
	for _, a := range cc.Args {
		args = append(args, fx.val(st, a))
	}
	fnv := fx.val(st, cc.Value)
	return fx.callWith(st, cc, fnv, args, instr, pos)
}

func resultType(cc *ssa.CallCommon) types.Type {
	sig := cc.Signature()
	switch sig.Results().Len() {
	case 0:
		return nil
	case 1:
		return sig.Results().At(0).Type()
	}
	return sig.Results()
}

func isLogCall(cc *ssa.CallCommon) bool {
	if cc.IsInvoke() {
		if n := namedOf(cc.Value.Type()); n != nil && n.Obj().Pkg() != nil && n.Obj().Pkg().Path() == "github.com/pion/logging" {
			return true
		}
	}
	if f := cc.StaticCallee(); f != nil && f.Pkg != nil {
		p := f.Pkg.Pkg.Path()
		if p == "github.com/pion/logging" || p == "log" {
			return true
		}
		if p == "fmt" && (strings.HasPrefix(f.Name(), "Print") || strings.HasPrefix(f.Name(), "Fprint")) {
			return true
		}
	}
	return false
}

func (fx *FuncCtx) callWith(st *State, cc *ssa.CallCommon, fnv Val, args []Val, instr ssa.Instruction, pos token.Pos) Val {
	rt := resultType(cc)
	if isLogCall(cc) {
		fx.trusted["dropped: logging call "+callName(cc)] = true
		if rt == nil {
			return Val{}
		}
		lv := fx.freshVal("log", rt)
		fx.assumeTyping(st, lv)
		if _, isIface := rt.Underlying().(*types.Interface); isIface && len(lv.C) == 2 {
			// a logger factory hands out a logger (never nil)
			st.assume(not(eq(lv.C[0], "0")))
			st.assume(not(eq(lv.C[1], "0")))
			fx.trusted["logging factories return non-nil loggers"] = true
		}
		return lv
	}
	if b, ok := cc.Value.(*ssa.Builtin); ok {
		fx.curInstr = instr
		return fx.builtin(st, b, args, rt, pos)
	}
	if cc.IsInvoke() {
		return fx.invoke(st, cc, fnv, args, rt, pos)
	}
	callee := cc.StaticCallee()
	if callee == nil && fnv.Fn != nil {
		callee = fnv.Fn
	}
	if callee != nil {
		fx.curInstr = instr
		if v, done := fx.specialCall(st, callee, args, rt, pos); done {
			return v
		}
		fc := fx.eng.contractOf(callee)
		if fc == nil {
			fc = fx.eng.externContract(callee)
		}
		if fc != nil {
			return fx.applyContract(st, callee, fc, fnv, args, rt, pos)
		}
		fx.failf("call to %s without contract (declare a contract, `extern`, or `trusted`)", callee.String())
	}
	// dynamic call of a function value
	return fx.dynCall(st, cc, fnv, args, rt, pos)
}

func callName(cc *ssa.CallCommon) string {
	if cc.IsInvoke() {
		return cc.Method.Name()
	}
	if f := cc.StaticCallee(); f != nil {
		return f.Name()
	}
	return cc.Value.Name()
}

func (fx *FuncCtx) dynCall(st *State, cc *ssa.CallCommon, fnv Val, args []Val, rt types.Type, pos token.Pos) Val {
	// function-typed value of unknown identity: result havocked, no heap effect assumed (listed)
	fx.trusted["assumed noeffect: dynamic call of function value at "+fx.posStr(pos)] = true
	fx.nilCheck(st, fnv.s(), pos, "call of nil function")
	st.callN["dyn"]++
	site := fmt.Sprintf("dyn#%d", st.callN["dyn"])
	var v Val
	if rt != nil {
		v = fx.freshVal("dyn", rt)
		fx.assumeTyping(st, v)
	}
	// ghost code may record the outcome of the k-th dynamic call of the function (`ghost after dyn#k: ... result$ ...`)
	genv := fx.localsEnv(st, st.heap, map[string]string{})
	if rt != nil && v.Tup == nil {
		genv.vars["result$"] = v
	}
	fx.runGhost(st, "after "+site, genv, pos)
	return v
}

// ---------------------------------------------------------------- special (sync, errors, ...)

func (fx *FuncCtx) specialCall(st *State, callee *ssa.Function, args []Val, rt types.Type, pos token.Pos) (Val, bool) {
	full := callee.String()
	switch full {
	case "(*sync.Mutex).Lock", "(*sync.RWMutex).Lock":
		fx.lock(st, args[0], "w", pos)
		return Val{}, true
	case "(*sync.RWMutex).RLock":
		fx.lock(st, args[0], "r", pos)
		return Val{}, true
	case "(*sync.Mutex).Unlock", "(*sync.RWMutex).Unlock", "(*sync.RWMutex).RUnlock":
		fx.unlock(st, args[0], pos)
		return Val{}, true
	case "(*sync.WaitGroup).Wait":
		if len(st.spawned) > 0 {
			fx.joinSpawned(st, pos)
			return Val{}, true
		}
	case "(*sync.Once).Do":
		// f runs at most once: either this call runs it (contract of the closure applied) or an earlier one did
		f := args[1]
		if f.Fn == nil || fx.curInstr == nil {
			fx.failf("sync.Once.Do with an unknown function value")
		}
		if _, isCall := fx.curInstr.(*ssa.Call); !isCall {
			fx.failf("sync.Once.Do in defer/go")
		}
		fx.trusted["sync.Once.Do(f): f runs in at most one call of Do; each call is checked for both cases"] = true
		// ghost state of the Once object: done[ref]; the running call sees it unset and sets it, a skipping call sees it set
		onceK := HeapKey{"ONCE$done", "(Array Int Bool)"}
		oref := "0"
		if args[0].L != nil {
			oref = args[0].L.Ref
		}
		onceCur := fx.heapGet(st.heap, onceK)
		fc := fx.eng.contractOf(f.Fn)
		if fc == nil {
			// no contract: the closure body is executed in place on one path, skipped on the other
			skip := st.clone()
			skip.trail = append(skip.trail, "once:skip")
			skip.assume(sx("select", onceCur, oref))
			st.assume(not(sx("select", onceCur, oref)))
			st.onceRun = append(st.onceRun, onceRec{ref: oref, depth: len(st.frames)})
			b := fx.curInstr.Block()
			idx := -1
			for i, x := range b.Instrs {
				if x == fx.curInstr {
					idx = i
				}
			}
			fx.npaths++
			fx.runFrom(skip, b, idx+1)
			st.trail = append(st.trail, "once:run")
			fx.inlineCall(st, fx.curInstr, f.Fn, f, nil, false)
			return Val{}, true
		}
		ran := st.clone()
		ran.trail = append(ran.trail, "once:run")
		fx.applyContract(ran, f.Fn, fc, f, f.Bind, nil, pos)
		skip := st.clone()
		skip.trail = append(skip.trail, "once:skip")
		fx.forkAfter(st, fx.curInstr, []*State{ran, skip})
		return Val{}, true
	case "fmt.Sprintf":
		return fx.sprintf(st, args, pos), true
	case "fmt.Errorf":
		// a fresh non-nil error whose text is irrelevant here
		v := fx.freshVal("errorf", rt)
		fx.assumeTyping(st, v)
		st.assume(not(eq(v.C[0], "0")))
		st.assume(not(eq(v.C[1], "0")))
		return v, true
	}
	return Val{}, false
}

func (fx *FuncCtx) monitorFor(l *Loc) (*types.Named, *MonitorDecl) {
	if l.Kind != LocField {
		return nil, nil
	}
	nt := namedOf(l.Root)
	md := fx.eng.monitorOf(nt)
	if md == nil || md.Mutex != l.Path {
		return nt, nil
	}
	return nt, md
}

func (fx *FuncCtx) lock(st *State, mu Val, mode string, pos token.Pos) {
	if mu.L == nil {
		fx.failf("Lock on non-location mutex")
	}
	key := mutexKey(mu.L)
	if st.held[key] != "" {
		fx.oblige(st, "held", "relock", "false", pos, "mutex locked while already held (self-deadlock)")
	}
	st.held[key] = mode
	st.lockCount++
	nt, md := fx.monitorFor(mu.L)
	if md == nil {
		return
	}
	ref := mu.L.Ref
	// reachability of this lock before the monitor's assumptions are added
	pre := fx.canary(st, fmt.Sprintf("prelock#%d", st.lockCount), pos)
	pre.PreOnly = true
	// havoc guarded state of this object
	lastView := copyMap(st.heap)
	fx.bumpTop(st)
	fx.chanHavoc(st)
	fx.havocMonitor(st, nt, md, ref)
	// inhale invariants
	fx.inhaleInvariants(st, nt, ref)
	fx.inhaleRely(st, nt, ref, lastView)
	st.atlock = copyMap(st.heap)
	fx.canary(st, fmt.Sprintf("lock#%d", st.lockCount), pos).Pre = pre
	lenv := fx.localsEnv(st, st.heap, map[string]string{})
	fx.runGhost(st, "lock", lenv, pos)
}

func (fx *FuncCtx) inhaleInvariants(st *State, nt *types.Named, ref string) {
	env := fx.specEnv(st, st.heap, st.heap)
	for _, inv := range fx.eng.invariantsOf(nt) {
		ne := env.with(map[string]Val{inv.Recv: {T: types.NewPointer(nt), C: []string{ref}}})
		ne.pkg = nt.Obj().Pkg()
		var side []string
		ne.side = &side
		t := ne.boolTerm(inv.E)
		for _, s := range side {
			st.assume(s)
		}
		st.assume(t)
	}
}

func (fx *FuncCtx) hasRole(role string) bool {
	for _, r := range fx.fc.Roles {
		if r == role {
			return true
		}
	}
	return false
}

// inhaleRely: a function acting in a role may assume that role's rely conditions between the state it saw last and
// the state it finds when the monitor is entered again (by itself or by a callee).
func (fx *FuncCtx) inhaleRely(st *State, nt *types.Named, ref string, lastView map[string]string) {
	for _, rl := range fx.eng.reliesOf(nt) {
		if !fx.hasRole(rl.Role) {
			continue
		}
		env := fx.specEnv(st, st.heap, lastView)
		ne := env.with(map[string]Val{rl.Recv: {T: types.NewPointer(nt), C: []string{ref}}})
		ne.pkg = nt.Obj().Pkg()
		var side []string
		ne.side = &side
		t := ne.boolTerm(rl.E)
		for _, s := range side {
			st.assume(s)
		}
		st.assume(t)
		fx.trusted["role "+rl.Role+" of "+nt.Obj().Name()+": at most one goroutine per object acts in this role (rely `"+rl.Name+"` is guaranteed by every function under contract that does not act in the role; the uniqueness of the role holder is not checked)"] = true
	}
}

func (fx *FuncCtx) havocMonitor(st *State, nt *types.Named, md *MonitorDecl, ref string) {
	sT := nt.Underlying().(*types.Struct)
	for _, g := range md.Guarded {
		var ft types.Type
		for i := 0; i < sT.NumFields(); i++ {
			if sT.Field(i).Name() == g {
				ft = sT.Field(i).Type()
			}
		}
		if ft == nil {
			fx.failf("monitor %s: no field %s", md.Type, g)
		}
		nv := Val{T: ft}
		for _, c := range fx.mode.comps(ft) {
			k := fx.fieldKey(nt, g, c)
			f := fx.decls.fresh("hv$"+g+c.suffix, c.sort)
			nv.C = append(nv.C, f)
			fx.heapSet(st, k, sx("store", fx.heapGet(st.heap, k), ref, f))
		}
		fx.assumeTyping(st, nv)
		if mt, ok := ft.Underlying().(*types.Map); ok {
			// the contents of a guarded map are guarded state too
			dom, vals, kc, vcs := fx.mapKeys(mt)
			m := nv.C[0]
			fx.heapSet(st, dom, sx("store", fx.heapGet(st.heap, dom), m, fx.decls.fresh("hv$"+g+"$dom", "(Array "+kc.sort+" Bool)")))
			for j, vk := range vals {
				hv := fx.decls.fresh("hv$"+g+"$val", "(Array "+kc.sort+" "+vcs[j].sort+")")
				if vcs[j].kind == "ref" {
					fx.assumeRefArray(st, hv, kc.sort)
				}
				fx.heapSet(st, vk, sx("store", fx.heapGet(st.heap, vk), m, hv))
				st.exempt = append(append([]string(nil), st.exempt...), vk.Key+"|"+m)
			}
			lk := HeapKey{"ML$" + sanitize(typeStr(mt)), "(Array Int Int)"}
			nl := fx.decls.fresh("hv$"+g+"$len", "Int")
			st.assume(sx(">=", nl, "0"))
			fx.heapSet(st, lk, sx("store", fx.heapGet(st.heap, lk), m, nl))
			st.exempt = append(append([]string(nil), st.exempt...), dom.Key+"|"+m, lk.Key+"|"+m)
		}
		cls, _ := fx.eng.fieldClass(nt, g)
		// the elements of a slice held in a guarded field are guarded state too: other critical sections may have
		// written them (and may have grown the slice in place)
		if sl, ok := ft.Underlying().(*types.Slice); ok {
			for _, ec := range fx.mode.comps(sl.Elem()) {
				k := fx.elemKey(sl.Elem(), ec)
				f := fx.decls.fresh("hv$"+g+"$arr", "(Array "+fx.mode.lenSort()+" "+ec.sort+")")
				fx.assumeArrayTyping(st, f, sl.Elem(), ec)
				fx.heapSet(st, k, sx("store", fx.heapGet(st.heap, k), nv.C[0], f))
				st.exempt = append(append([]string(nil), st.exempt...), k.Key+"|"+nv.C[0])
			}
			st.assume(or(eq(nv.C[0], "0"), sx("select", fx.guardedArrays(), nv.C[0])))
			if cls == "owned" {
				fx.assumeOwnedDistinct(st, nv.C[0])
			}
		}
	}
	for _, gf := range fx.eng.ghostFieldsOf(nt) {
		cs := fx.mode.comps(gf.T)
		k := fx.fieldKey(nt, "ghost$"+gf.Name, cs[0])
		f := fx.decls.fresh("hv$ghost$"+gf.Name, cs[0].sort)
		fx.heapSet(st, k, sx("store", fx.heapGet(st.heap, k), ref, f))
	}
	// objects owned by the monitor: all their fields may have changed
	for _, on := range md.Owns {
		tn, ok := nt.Obj().Pkg().Scope().Lookup(strings.TrimPrefix(on, "ghost:")).(*types.TypeName)
		if !ok {
			fx.failf("monitor %s owns unknown type %s", md.Type, on)
		}
		ot := tn.Type().(*types.Named)
		ghostOnly := strings.HasPrefix(on, "ghost:")
		for _, c := range fx.mode.comps(ot) {
			if ghostOnly {
				break // `owns ghost:T`: only the ghost fields of T objects are guarded by this monitor
			}
			p, suf := splitSuffix(c.suffix)
			k := fx.fieldKey(ot, p, comp{suffix: suf, sort: c.sort, kind: c.kind})
			fx.keySorts[k.Key] = k.Sort
			st.heap[k.Key] = fx.decls.fresh(k.Key, k.Sort)
			st.noteWrite(k.Key, "*")
			// nested maps of owned objects (e.g. a permission set): contents change as well
			if c.kind == "ref" {
				if mt, isMap := leafType(ot, c).Underlying().(*types.Map); isMap {
					dom, vals, _, _ := fx.mapKeys(mt)
					for _, hk := range append([]HeapKey{dom, {"ML$" + sanitize(typeStr(mt)), "(Array Int Int)"}}, vals...) {
						fx.keySorts[hk.Key] = hk.Sort
						st.heap[hk.Key] = fx.decls.fresh(hk.Key, hk.Sort)
						st.noteWrite(hk.Key, "*")
						st.exempt = append(append([]string(nil), st.exempt...), hk.Key+"|*")
					}
				}
			}
		}
		for _, gf := range fx.eng.ghostFieldsOf(ot) {
			cs := fx.mode.comps(gf.T)
			k := fx.fieldKey(ot, "ghost$"+gf.Name, cs[0])
			fx.keySorts[k.Key] = k.Sort
			st.heap[k.Key] = fx.decls.fresh(k.Key, k.Sort)
			st.noteWrite(k.Key, "*")
		}
	}
}

// an owned array is not aliased by any slice parameter of the function (trusted: owned arrays never escape)
// guardedArrays: rigid ghost predicate over array references - "this array is (or was) held in a guarded slice field of
// a monitor".  It is only ever assumed positively (for the array a guarded field holds when the monitor is entered), so it
// cannot contradict anything; arrays in it are exempt from framing and are what a loop of monitor calls may change.
func (fx *FuncCtx) guardedArrays() string {
	return fx.decls.declare("GA$guarded", "(Array Int Bool)")
}

func (fx *FuncCtx) assumeOwnedDistinct(st *State, base string) {
	for _, p := range fx.fn.Params {
		if _, ok := p.Type().Underlying().(*types.Slice); ok {
			pv := fx.paramVals[p.Name()]
			st.assume(or(eq(base, "0"), not(eq(base, pv.C[0]))))
		}
	}
	fx.trusted["ownership: arrays reachable from `owned` fields are not aliased by slice parameters (escape of owned arrays is not checked by govc)"] = true
}

func (fx *FuncCtx) unlock(st *State, mu Val, pos token.Pos) {
	if mu.L == nil {
		fx.failf("Unlock on non-location mutex")
	}
	key := mutexKey(mu.L)
	if st.held[key] == "" {
		fx.oblige(st, "held", "unlock-unheld", "false", pos, "unlock of a mutex that is not held")
	}
	st.unlockN++
	nt, md := fx.monitorFor(mu.L)
	if md != nil {
		env := fx.localsEnv(st, st.heap, map[string]string{})
		fx.runGhost(st, "unlock", env, pos)
		ref := mu.L.Ref
		env = fx.specEnv(st, st.heap, st.heap)
		for _, inv := range fx.eng.invariantsOf(nt) {
			ne := env.with(map[string]Val{inv.Recv: {T: types.NewPointer(nt), C: []string{ref}}})
			ne.pkg = nt.Obj().Pkg()
			var side []string
			ne.side = &side
			t := ne.boolTerm(inv.E)
			for _, s := range side {
				st.assume(s)
			}
			fx.oblige(st, "inv", inv.Name, t, pos, inv.Src)
		}
		// guarantee: what this critical section did is within the rely of every role the function does not act in
		for _, rl := range fx.eng.reliesOf(nt) {
			if fx.hasRole(rl.Role) {
				continue
			}
			renv := fx.specEnv(st, st.heap, st.atlock)
			ne := renv.with(map[string]Val{rl.Recv: {T: types.NewPointer(nt), C: []string{ref}}})
			ne.pkg = nt.Obj().Pkg()
			var side []string
			ne.side = &side
			t := ne.boolTerm(rl.E)
			for _, s := range side {
				st.assume(s)
			}
			fx.oblige(st, "rely", rl.Role+"."+rl.Name, t, pos, rl.Src)
		}
	}
	delete(st.held, key)
}

// discipline: guarded fields are accessed only with the lock held
func (fx *FuncCtx) checkFieldRead(st *State, l *Loc, pos token.Pos) {
	fx.checkGuard(st, l, pos, false)
}

func (fx *FuncCtx) checkFieldWrite(st *State, l *Loc, v Val, pos token.Pos) {
	fx.checkGuard(st, l, pos, true)
	if l.Kind == LocField {
		nt := namedOf(l.Root)
		first := l.Path
		if i := strings.Index(first, "."); i >= 0 {
			first = first[:i]
		}
		cls, _ := fx.eng.fieldClass(nt, first)
		if cls == "owned" && len(v.C) == 4 {
			// the stored slice must be freshly allocated here (or nil)
			if !st.freshRefs[v.C[0]] && v.C[0] != "0" {
				// ... or the array the field holds already (re-slicing, growth in place)
				goal := "false"
				if first == l.Path {
					if cs := fx.mode.comps(v.T); len(cs) == 4 {
						curBase := sx("select", fx.heapGet(st.heap, fx.fieldKey(l.Root, l.Path, cs[0])), l.Ref)
						goal = or(eq(v.C[0], "0"), eq(v.C[0], curBase))
					}
				}
				fx.oblige(st, "owned", first, goal, pos, "value stored into owned field "+first+" is neither a fresh allocation of this function nor the array the field already holds")
			}
		}
		if cls == "immutable" && !fx.fc.Ctor && !st.freshRefs[l.Ref] {
			fx.oblige(st, "held", "immutable:"+first, "false", pos, "write to immutable field "+first+" outside a constructor")
		}
	}
}

func (fx *FuncCtx) checkGuard(st *State, l *Loc, pos token.Pos, write bool) {
	if l.Kind != LocField {
		return
	}
	nt := namedOf(l.Root)
	md := fx.eng.monitorOf(nt)
	if md == nil {
		return
	}
	first := l.Path
	if i := strings.Index(first, "."); i >= 0 {
		first = first[:i]
	}
	guarded := false
	for _, g := range md.Guarded {
		if g == first {
			guarded = true
		}
	}
	if !guarded || st.freshRefs[l.Ref] {
		return
	}
	mode := st.held[l.Ref+"."+md.Mutex]
	if mode == "" || (write && mode == "r") {
		what := "read"
		if write {
			what = "write"
		}
		fx.oblige(st, "held", first, "false", pos, what+" of guarded field "+first+" without holding "+md.Mutex)
	}
}

// ---------------------------------------------------------------- builtins

func (fx *FuncCtx) builtin(st *State, b *ssa.Builtin, args []Val, rt types.Type, pos token.Pos) Val {
	switch b.Name() {
	case "len", "cap":
		x := args[0]
		switch t := x.T.Underlying().(type) {
		case *types.Slice:
			i := 2
			if b.Name() == "cap" {
				i = 3
			}
			v := Val{T: rt, C: []string{x.C[i]}}
			return v
		case *types.Map:
			k := HeapKey{"ML$" + sanitize(typeStr(t)), "(Array Int Int)"}
			v := Val{T: rt, C: []string{sx("select", fx.heapGet(st.heap, k), x.s())}}
			st.assume(sx(">=", v.C[0], "0"))
			return v
		case *types.Chan:
			k := HeapKey{"CH$" + b.Name(), "(Array Int Int)"}
			v := Val{T: rt, C: []string{sx("select", fx.heapGet(st.heap, k), x.s())}}
			st.assume(sx(">=", v.C[0], "0"))
			return v
		case *types.Basic:
			if t.Info()&types.IsString != 0 {
				fx.decls.declareFun("str$len", []string{"Str"}, "Int")
				v := Val{T: rt, C: []string{sx("str$len", x.s())}}
				st.assume(sx(">=", v.C[0], "0"))
				return v
			}
		}
		fx.failf("len of %s", typeStr(x.T))
	case "copy":
		return fx.builtinCopy(st, args[0], args[1], rt, pos)
	case "append":
		return fx.builtinAppend(st, args, rt, pos)
	case "delete":
		mt := args[0].T.Underlying().(*types.Map)
		dom, _, _, _ := fx.mapKeys(mt)
		m := args[0].s()
		k := args[1].s()
		d := fx.heapGet(st.heap, dom)
		lk := HeapKey{"ML$" + sanitize(typeStr(mt)), "(Array Int Int)"}
		ln := fx.heapGet(st.heap, lk)
		was := sx("select", sx("select", d, m), k)
		fx.heapSet(st, lk, sx("store", ln, m, ite(was, sx("-", sx("select", ln, m), "1"), sx("select", ln, m))))
		fx.heapSet(st, dom, sx("store", d, m, sx("store", sx("select", d, m), k, "false")))
		return Val{}
	case "close":
		ch := args[0].s()
		kc := HeapKey{"CH$closed", "(Array Int Bool)"}
		cur := fx.heapGet(st.heap, kc)
		fx.nilCheck(st, ch, pos, "close of nil channel")
		if fx.openChans[ch] {
			fx.oblige(st, "safe", "close-open", "false", pos, "close of a channel declared `openchan` (never closed)")
		}
		if len(st.held) == 0 && fx.fc.Opts["trust_unlocked_close"] != "" {
			fx.trusted["close(ch) outside the lock in "+fx.key+" is assumed not to hit a closed channel (needs an ownership argument outside the monitor)"] = true
		} else {
			fx.oblige(st, "safe", "close", not(sx("select", cur, ch)), pos, "close of an already closed channel")
		}
		fx.heapSet(st, kc, sx("store", cur, ch, "true"))
		return Val{}
	case "min", "max":
		op := "<="
		if b.Name() == "max" {
			op = ">="
		}
		return Val{T: rt, C: []string{ite(fx.ar.cmp(op, args[0].s(), args[1].s(), args[0].T), args[0].s(), args[1].s())}}
	case "print", "println":
		return Val{}
	case "ssa:wrapnilchk":
		return args[0]
	case "ssa:deferstack":
		return Val{T: rt}
	}
	fx.failf("builtin %s", b.Name())
	return Val{}
}

func (fx *FuncCtx) builtinCopy(st *State, dst, src Val, rt types.Type, pos token.Pos) Val {
	if _, ok := src.T.Underlying().(*types.Slice); !ok {
		fx.failf("copy from %s", typeStr(src.T))
	}
	et := dst.T.Underlying().(*types.Slice).Elem()
	n := ite(fx.lenCmp("<=", dst.C[2], src.C[2]), dst.C[2], src.C[2])
	nn := fx.decls.fresh("copyn", fx.mode.lenSort())
	st.assume(eq(nn, n))
	fx.decls.n++
	qi := fmt.Sprintf("q$ci!%d", fx.decls.n)
	for _, ec := range fx.mode.comps(et) {
		k := fx.elemKey(et, ec)
		cur := fx.heapGet(st.heap, k)
		na := fx.decls.fresh("copy$arr", "(Array "+fx.mode.lenSort()+" "+ec.sort+")")
		inWin := and(fx.lenCmp("<=", dst.C[1], qi), fx.lenCmp("<", qi, fx.lenOp("+", dst.C[1], nn)))
		srcIdx := fx.lenOp("+", src.C[1], fx.lenOp("-", qi, dst.C[1]))
		body := eq(sx("select", na, qi), ite(inWin, sx("select", sx("select", cur, src.C[0]), srcIdx), sx("select", sx("select", cur, dst.C[0]), qi)))
		st.assume("(forall ((" + qi + " " + fx.mode.lenSort() + ")) (! " + body + " :pattern (" + sx("select", na, qi) + ")))")
		fx.heapSet(st, k, sx("store", cur, dst.C[0], na))
	}
	return Val{T: rt, C: []string{nn}}
}

func (fx *FuncCtx) builtinAppend(st *State, args []Val, rt types.Type, pos token.Pos) Val {
	s, t := args[0], args[1]
	sl, ok := rt.Underlying().(*types.Slice)
	if !ok {
		fx.failf("append result type")
	}
	if _, ok := t.T.Underlying().(*types.Slice); !ok {
		if b, isB := t.T.Underlying().(*types.Basic); isB && b.Info()&types.IsString != 0 {
			// append([]byte, string...): contents of the appended part are the string's bytes (not modelled: unknown)
			s = fx.adapt(s, rt)
			fx.decls.declareFun("str$len", []string{"Str"}, "Int")
			sl := sx("str$len", t.s())
			st.assume(sx(">=", sl, "0"))
			nl := fx.lenOp("+", s.C[2], sl)
			out := fx.makeSliceUnknown(st, rt, nl)
			fx.trusted["append([]byte, string...): the bytes of strings are not modelled (result content unknown)"] = true
			return out
		}
		fx.failf("append of %s", typeStr(t.T))
	}
	s = fx.adapt(s, rt)
	et := sl.Elem()
	// result: fresh or in-place; modelled as a fresh array (sound when the old backing array is not observed
	// through another alias afterwards; in-place writes beyond len(s) are invisible to slices of length <= len(s))
	// We model both: contents of result[0:len(s)) = s, result[len(s):len(s)+len(t)) = t.
	newLen := fx.lenOp("+", s.C[2], t.C[2])
	// Go semantics: when the spare capacity suffices the result shares the backing array of s and the new elements are
	// written in place (visible through every alias of that array); otherwise a new array is allocated.  Both cases are
	// explored as separate paths when the call is an ordinary instruction.
	inPlace := false
	if call, isCall := fx.curInstr.(*ssa.Call); isCall && call.Common().Value != nil {
		if bi, isB := call.Common().Value.(*ssa.Builtin); isB && bi.Name() == "append" {
			inPlace = true
			alt := st.clone()
			alt.trail = append(alt.trail, "append:inplace")
			alt.assume(fx.lenCmp("<=", newLen, s.C[3]))
			start := fx.lenOp("+", s.C[1], s.C[2])
			fx.decls.n++
			qj := fmt.Sprintf("q$ap!%d", fx.decls.n)
			for ci, ec := range fx.mode.comps(et) {
				k := fx.elemKey(et, ec)
				cur := fx.heapGet(alt.heap, k)
				arr := sx("select", cur, s.C[0])
				if t.Tup != nil {
					for j, ev := range t.Tup {
						evv := fx.adapt(ev, et)
						if ci < len(evv.C) {
							arr = sx("store", arr, fx.lenOp("+", start, fx.lenNum(int64(j))), evv.C[ci])
						}
					}
				} else {
					na := fx.decls.fresh("app$inp", "(Array "+fx.mode.lenSort()+" "+ec.sort+")")
					inT := and(fx.lenCmp("<=", start, qj), fx.lenCmp("<", qj, fx.lenOp("+", s.C[1], newLen)))
					body := eq(sx("select", na, qj), ite(inT, sx("select", sx("select", cur, t.C[0]), fx.lenOp("+", t.C[1], fx.lenOp("-", qj, start))), sx("select", arr, qj)))
					alt.assume("(forall ((" + qj + " " + fx.mode.lenSort() + ")) (! " + body + " :pattern (" + sx("select", na, qj) + ")))")
					arr = na
				}
				fx.heapSet(alt, k, sx("store", cur, s.C[0], arr))
			}
			fx.set(alt, call, Val{T: rt, C: []string{s.C[0], s.C[1], newLen, s.C[3]}})
			b := call.Block()
			idx := -1
			for i, x := range b.Instrs {
				if x == ssa.Instruction(call) {
					idx = i
				}
			}
			fx.npaths++
			if fx.npaths > maxPaths {
				fx.failf("path explosion in %s", fx.key)
			}
			fx.runFrom(alt, b, idx+1)
			st.assume(fx.lenCmp(">", newLen, s.C[3]))
			st.trail = append(st.trail, "append:realloc")
		}
	}
	r := fx.newRef(st, "app")
	ncap := fx.decls.fresh("appcap", fx.mode.lenSort())
	st.assume(fx.lenCmp(">=", ncap, newLen))
	st.assume(fx.lenCmp("<", newLen, fx.mode.num(pow2(62), fx.mode.lenSort())))
	fx.decls.n++
	qi := fmt.Sprintf("q$ai!%d", fx.decls.n)
	for _, ec := range fx.mode.comps(et) {
		k := fx.elemKey(et, ec)
		cur := fx.heapGet(st.heap, k)
		na := fx.decls.fresh("app$arr", "(Array "+fx.mode.lenSort()+" "+ec.sort+")")
		inS := and(fx.lenCmp("<=", fx.lenNum(0), qi), fx.lenCmp("<", qi, s.C[2]))
		inT := and(fx.lenCmp("<=", s.C[2], qi), fx.lenCmp("<", qi, newLen))
		body := implies(inS, eq(sx("select", na, qi), sx("select", sx("select", cur, s.C[0]), fx.lenOp("+", s.C[1], qi))))
		if t.Tup == nil {
			body = and(body, implies(inT, eq(sx("select", na, qi), sx("select", sx("select", cur, t.C[0]), fx.lenOp("+", t.C[1], fx.lenOp("-", qi, s.C[2]))))))
		}
		st.assume("(forall ((" + qi + " " + fx.mode.lenSort() + ")) (! " + body + " :pattern (" + sx("select", na, qi) + ")))")
		if t.Tup != nil {
			// explicit elements of a variadic pack: append(s, e0, e1, ...)
			ci := 0
			for ci2, c2 := range fx.mode.comps(et) {
				if c2.suffix == ec.suffix {
					ci = ci2
				}
			}
			for j, ev := range t.Tup {
				evv := fx.adapt(ev, et)
				if ci < len(evv.C) {
					st.assume(eq(sx("select", na, fx.lenOp("+", s.C[2], fx.lenNum(int64(j)))), evv.C[ci]))
				}
			}
		}
		fx.heapSet(st, k, sx("store", cur, r, na))
	}
	if !inPlace {
		fx.trusted["append in defer/go modelled as reallocation: the result never aliases its argument (in-place growth into spare capacity is not modelled there)"] = true
	}
	return Val{T: rt, C: []string{r, fx.lenNum(0), newLen, ncap}}
}

// ---------------------------------------------------------------- contracts at call sites

func (fx *FuncCtx) calleeEnv(st *State, callee *ssa.Function, fc *FuncContract, fnv Val, args []Val, cur, old map[string]string) *SpecEnv {
	vars := map[string]Val{}
	idx := 0
	if callee != nil && callee.Signature.Recv() != nil && len(args) > 0 {
		if fc.Recv != "" {
			vars[fc.Recv] = args[0]
		}
		if len(callee.Params) > 0 {
			vars[callee.Params[0].Name()] = args[0]
		}
		idx = 1
	} else if fc.Recv != "" && fc.Extern && len(args) > 0 && len(fc.Params) == len(args)-1 {
		vars[fc.Recv] = args[0]
		idx = 1
	}
	for i, n := range fc.Params {
		if idx+i < len(args) && n != "_" {
			vars[n] = args[idx+i]
		}
	}
	// closure: free variables by name
	if callee != nil && len(callee.FreeVars) > 0 {
		for i, fv := range callee.FreeVars {
			if i < len(fnv.Bind) {
				b := fnv.Bind[i]
				if b.L != nil {
					vars[fv.Name()] = fx.load(st, cur, b.L)
				} else {
					vars[fv.Name()] = b
				}
			}
		}
	}
	var pkg *types.Package
	if callee != nil && callee.Pkg != nil {
		pkg = callee.Pkg.Pkg
	}
	if fc.Extern || pkg == nil {
		pkg = fx.eng.typesPkg(fc.Pkg)
	}
	return &SpecEnv{fx: fx, pkg: pkg, vars: vars, cur: cur, old: old, atlock: st.atlock, st: st, reveal: fx.reveal}
}

func (fx *FuncCtx) applyContract(st *State, callee *ssa.Function, fc *FuncContract, fnv Val, args []Val, rt types.Type, pos token.Pos) Val {
	name := callee.Name()
	st.callN[name]++
	site := fmt.Sprintf("%s#%d", name, st.callN[name])
	if fc.Extern || fc.Trusted {
		fx.trusted[fmt.Sprintf("trusted contract: %s (%s)", fc.Key, map[bool]string{true: "extern", false: "trusted body"}[fc.Extern])] = true
	}
	env := fx.calleeEnv(st, callee, fc, fnv, args, st.heap, st.heap)
	genv := fx.localsEnv(st, st.heap, map[string]string{})
	fx.runGhost(st, "before "+site, genv, pos)
	env.cur, env.old = st.heap, st.heap
	// locks required by the callee
	for _, lk := range fc.Locked {
		v := env.eval(lk)
		if v.L == nil || st.held[mutexKey(v.L)] == "" {
			fx.oblige(st, "held", "pre:"+site, "false", pos, "callee "+fc.Key+" requires "+lk.String()+" to be held")
		}
	}
	for i, rq := range fc.Requires {
		if fx.skipPre {
			break // joined goroutine: its precondition was checked when it was spawned
		}
		label := rq.Name
		if label == "" {
			label = fmt.Sprintf("#%d", i+1)
		}
		var side []string
		env.side = &side
		t := env.boolTerm(rq.E)
		for _, s := range side {
			st.assume(s)
		}
		fx.oblige(st, "pre", site+"."+label, t, pos, fc.Key+" requires "+rq.Src)
		st.assume(t)
	}
	old := copyMap(st.heap)
	topBefore := st.top()
	var calleeAtlock map[string]string
	if !fc.Pure {
		fx.bumpTop(st)
		fx.havocModifies(st, env, fc)
		// a public method of a monitor may change the guarded state of its receiver
		if callee.Signature.Recv() != nil && len(fc.Locked) == 0 && len(args) > 0 {
			if nt := namedOf(callee.Signature.Recv().Type()); nt != nil {
				if md := fx.eng.monitorOf(nt); md != nil && len(args[0].C) == 1 {
					if st.held[args[0].s()+"."+md.Mutex] == "" {
						// the callee enters the monitor: the state it finds (atlock in its contract) ...
						fx.havocMonitor(st, nt, md, args[0].s())
						fx.inhaleInvariants(st, nt, args[0].s())
						fx.inhaleRely(st, nt, args[0].s(), old)
						calleeAtlock = copyMap(st.heap)
						// ... and the state it leaves
						fx.havocMonitor(st, nt, md, args[0].s())
						fx.inhaleInvariants(st, nt, args[0].s())
					}
				}
			}
		}
		fx.bumpTop(st)
	}
	var res Val
	if rt != nil {
		if fc.Pure {
			fx.bumpTop(st) // even an observer may return a freshly allocated object
		}
		res = fx.freshVal("r$"+name, rt)
		fx.assumeTyping(st, res)
	}
	env2 := fx.calleeEnv(st, callee, fc, fnv, args, st.heap, old)
	env2.entryTop = topBefore
	if calleeAtlock != nil {
		env2.atlock = calleeAtlock
	}
	rs := res.Tup
	if rt != nil && res.Tup == nil {
		rs = []Val{res}
	}
	for i, n := range fc.Results {
		if i < len(rs) && n != "_" {
			env2.vars[n] = rs[i]
		}
	}
	if callee != nil {
		sig := callee.Signature.Results()
		for i := 0; i < sig.Len() && i < len(rs); i++ {
			if n := sig.At(i).Name(); n != "" && n != "_" {
				if _, dup := env2.vars[n]; !dup {
					env2.vars[n] = rs[i]
				}
			}
		}
	}
	for _, en := range fc.Ensures {
		var side []string
		env2.side = &side
		t := env2.boolTerm(en.E)
		for _, s := range side {
			st.assume(s)
		}
		st.assume(t)
	}
	genv = fx.localsEnv(st, st.heap, map[string]string{})
	if rt != nil && res.Tup == nil {
		genv.vars["result$"] = res
	}
	for i, r := range res.Tup {
		genv.vars[fmt.Sprintf("result$%d", i)] = r
	}
	fx.runGhost(st, "after "+site, genv, pos)
	return res
}

// evalTargets: heap locations denoted by a modifies expression.
type modTarget struct {
	keys  []HeapKey
	ref   string // object (fields) or array base (elements)
	elems bool
	win   [2]string // off, len for element windows
	cell  ssa.Value
}

func (fx *FuncCtx) modTargets(env *SpecEnv, e Expr) []modTarget {
	switch x := e.(type) {
	case *EIndex:
		if id, ok := x.I.(*EIdent); ok && id.Name == "*" {
			v := env.eval(x.X)
			switch t := v.T.Underlying().(type) {
			case *types.Slice:
				var ks []HeapKey
				for _, c := range fx.mode.comps(t.Elem()) {
					ks = append(ks, fx.elemKey(t.Elem(), c))
				}
				return []modTarget{{keys: ks, ref: v.C[0], elems: true, win: [2]string{v.C[1], v.C[2]}}}
			case *types.Map:
				dom, vals, _, _ := fx.mapKeys(t)
				ks := append([]HeapKey{dom, {"ML$" + sanitize(typeStr(t)), "(Array Int Int)"}}, vals...)
				return []modTarget{{keys: ks, ref: v.s()}}
			case *GhostMap, *GhostSet:
				return fx.modTargets(env, x.X)
			}
			sfail("modifies %s: not a slice or map", e)
		}
	case *ESel:
		v := env.eval(x.X)
		nt := namedOf(v.T)
		if nt != nil {
			if gf, ok := fx.eng.ghostField(nt, x.Name); ok {
				cs := fx.mode.comps(gf.T)
				return []modTarget{{keys: []HeapKey{fx.fieldKey(nt, "ghost$"+x.Name, cs[0])}, ref: v.s()}}
			}
		}
		p, ok := v.T.Underlying().(*types.Pointer)
		if !ok {
			sfail("modifies %s: receiver is not a pointer", e)
		}
		obj, idx, _ := types.LookupFieldOrMethod(p.Elem(), true, env.pkgFor(p.Elem()), x.Name)
		fld, ok := obj.(*types.Var)
		if !ok || len(idx) < 1 {
			sfail("modifies %s: no field", e)
		}
		// promoted fields of by-value embedded structs: the path through the embedding
		path := ""
		cur := p.Elem()
		for k, i := range idx {
			st, isStruct := cur.Underlying().(*types.Struct)
			if !isStruct {
				sfail("modifies %s: no direct field", e)
			}
			f := st.Field(i)
			if path != "" {
				path += "."
			}
			path += f.Name()
			if k < len(idx)-1 {
				if _, isPtr := f.Type().Underlying().(*types.Pointer); isPtr {
					sfail("modifies %s: field promoted through an embedded pointer", e)
				}
				cur = f.Type()
			}
		}
		var ks []HeapKey
		for _, c := range fx.mode.comps(fld.Type()) {
			ks = append(ks, fx.fieldKey(p.Elem(), path, c))
		}
		return []modTarget{{keys: ks, ref: v.s()}}
	case *EIdent:
		if gk, ok := fx.eng.ghostGlobal(env.pkg, x.Name); ok {
			cs := fx.mode.comps(gk.T)
			return []modTarget{{keys: []HeapKey{{"GG$" + gk.Name, cs[0].sort}}, ref: ""}}
		}
		if env.pkg != nil {
			if obj, ok := env.pkg.Scope().Lookup(x.Name).(*types.Var); ok {
				if g := fx.eng.globalFor(obj); g != nil {
					var ks []HeapKey
					for _, c := range fx.mode.comps(obj.Type()) {
						ks = append(ks, fx.globalKey(g, c))
					}
					return []modTarget{{keys: ks, ref: ""}}
				}
			}
		}
	}
	sfail("unsupported modifies target %s", e)
	return nil
}

func (fx *FuncCtx) havocModifies(st *State, env *SpecEnv, fc *FuncContract) {
	for _, m := range fc.Modifies {
		for _, t := range fx.modTargets(env, m) {
			for _, k := range t.keys {
				cur := fx.heapGet(st.heap, k)
				switch {
				case t.ref == "":
					fx.keySorts[k.Key] = k.Sort
					st.heap[k.Key] = fx.decls.fresh(k.Key, k.Sort)
				case t.elems:
					inner := innerSort(k.Sort)
					na := fx.decls.fresh("mod$arr", inner)
					if et, ok := fx.intElemKeys[k.Key]; ok {
						fx.decls.n++
						qt := fmt.Sprintf("q$tm!%d", fx.decls.n)
						st.assume("(forall ((" + qt + " Int)) (! " + fx.ar.rangeFact(sx("select", na, qt), et) + " :pattern (" + sx("select", na, qt) + ")))")
					}
					fx.decls.n++
					qi := fmt.Sprintf("q$mi!%d", fx.decls.n)
					_ = qi
					fx.heapSet(st, k, sx("store", cur, t.ref, na))
				default:
					inner := innerSort(k.Sort)
					f := fx.decls.fresh("mod$"+k.Key, inner)
					if fx.refKeys[k.Key] == 2 {
						fx.assumeRefArray(st, f, fx.mapKeySort[k.Key])
					}
					fx.heapSet(st, k, sx("store", cur, t.ref, f))
				}
			}
		}
	}
}

// innerSort: value sort of (Array Int X)
func innerSort(s string) string {
	s = strings.TrimPrefix(s, "(Array Int ")
	return strings.TrimSuffix(s, ")")
}

// ---------------------------------------------------------------- frame

func (fx *FuncCtx) frameObligations(st *State, env *SpecEnv, pos token.Pos) {
	if fx.fc.Opts["noframe"] != "" {
		fx.trusted["frame of "+fx.key+" not checked (option noframe)"] = true
		return
	}
	// modifies targets evaluated in the entry state
	entryEnv := *env
	entryEnv.cur = map[string]string{}
	entryEnv.old = map[string]string{}
	type allow struct {
		refs  []string
		elems []modTarget
		all   bool
	}
	allowed := map[string]*allow{}
	for _, m := range fx.fc.Modifies {
		for _, t := range fx.modTargets(&entryEnv, m) {
			for _, k := range t.keys {
				a := allowed[k.Key]
				if a == nil {
					a = &allow{}
					allowed[k.Key] = a
				}
				if t.ref == "" {
					a.all = true
				} else if t.elems {
					a.elems = append(a.elems, t)
				} else {
					a.refs = append(a.refs, t.ref)
				}
			}
		}
	}
	// guarded fields (and ghost fields) of a monitor receiver are implicitly modifiable by its public methods
	monitorKeys := map[string]string{}
	if fx.fn.Signature.Recv() != nil && len(fx.fn.Params) > 0 {
		if nt := namedOf(fx.fn.Signature.Recv().Type()); nt != nil {
			if md := fx.eng.monitorOf(nt); md != nil {
				recv := fx.paramVals[fx.fn.Params[0].Name()]
				sT := nt.Underlying().(*types.Struct)
				for _, g := range md.Guarded {
					for i := 0; i < sT.NumFields(); i++ {
						if sT.Field(i).Name() == g {
							for _, c := range fx.mode.comps(sT.Field(i).Type()) {
								monitorKeys[fx.fieldKey(nt, g, c).Key] = recv.s()
							}
						}
					}
				}
				for _, gf := range fx.eng.ghostFieldsOf(nt) {
					monitorKeys[fx.fieldKey(nt, "ghost$"+gf.Name, fx.mode.comps(gf.T)[0]).Key] = recv.s()
				}
			}
		}
	}
	for _, key := range sortedHeapKeys(st.heap) {
		if key == "alloc$top" {
			continue
		}
		final := st.heap[key]
		entry := key + "@0"
		if final == entry {
			continue
		}
		srt := fx.keySorts[key]
		if srt == "" {
			continue
		}
		if fx.eng.isMonitorGuardedKey(key) {
			continue // guarded state of a monitor can change at any time (other goroutines); it is never framed
		}
		if strings.HasPrefix(key, "ONCE$") {
			continue // ghost state of sync.Once objects
		}
		skip := false
		for _, ex := range st.exempt {
			if ex == key+"|*" {
				skip = true // contents of maps held by monitor-owned objects
			}
		}
		if skip {
			continue
		}
		if strings.HasPrefix(key, "BOX$") || strings.HasPrefix(key, "CH$") || strings.HasPrefix(key, "ML$") || strings.HasPrefix(key, "MD$") || strings.HasPrefix(key, "MV$") {
			// boxed values / channel and map ghosts: covered by map/chan modifies below
			if a := allowed[key]; a != nil || strings.HasPrefix(key, "BOX$") {
				continue
			}
			if strings.HasPrefix(key, "CH$") {
				continue // channel state is shared; never framed
			}
		}
		fx.decls.declare(entry, srt)
		a := allowed[key]
		if a != nil && a.all {
			continue
		}
		// syntactic check: every written object is allowed (modifies, monitor receiver, or allocated here)
		if ws := st.writes[key]; ws != nil && !ws["*"] {
			okAll := true
			for w := range ws {
				ok := st.freshRefs[w] || w == "fresh-in-loop"
				if a != nil && !strings.HasPrefix(key, "A$") {
					for _, r := range a.refs {
						if r == w {
							ok = true
						}
					}
				}
				if mref, isMon := monitorKeys[key]; isMon && mref == w {
					ok = true
				}
				if !ok {
					okAll = false
				}
			}
			if okAll {
				continue
			}
		}
		if !strings.HasPrefix(srt, "(Array Int ") {
			// scalar global
			fx.oblige(st, "frame", key, eq(final, entry), pos, "global "+key+" not in modifies")
			continue
		}
		o := fx.decls.fresh("frame$o", "Int")
		hy := []string{sx("<=", o, fx.entryTop), sx(">", o, "0")}
		if a != nil {
			for _, r := range a.refs {
				hy = append(hy, not(eq(o, r)))
			}
		}
		if mref, ok := monitorKeys[key]; ok {
			hy = append(hy, not(eq(o, mref)))
		}
		goal := eq(sx("select", final, o), sx("select", entry, o))
		{
			// arrays / maps owned by a monitor are guarded state of that monitor
			for _, ex := range st.exempt {
				if strings.HasPrefix(ex, key+"|") {
					hy = append(hy, not(eq(o, ex[len(key)+1:])))
				}
			}
		}
		if strings.HasPrefix(key, "A$") {
			// arrays known to be held in guarded slice fields of monitors are guarded state
			hy = append(hy, not(sx("select", fx.guardedArrays(), o)))
		}
		if strings.HasPrefix(key, "A$") && a != nil && len(a.elems) > 0 {
			// `modifies x[*]` allows the whole backing array of x to change
			for _, t := range a.elems {
				hy = append(hy, not(eq(o, t.ref)))
			}
		}
		// owned arrays of a monitor receiver: exempt bases owned at entry are unknown; element arrays reachable only
		// through guarded owned fields are exempted through the ownership assumption
		if strings.HasPrefix(key, "A$") && len(monitorKeys) > 0 {
			for _, p := range fx.fn.Params {
				_ = p
			}
			// only slices passed as parameters are framed for monitor methods
			var ps []string
			for _, p := range fx.fn.Params {
				if _, ok := p.Type().Underlying().(*types.Slice); ok {
					ps = append(ps, eq(o, fx.paramVals[p.Name()].C[0]))
				}
			}
			hy = append(hy, or(ps...))
		}
		fx.oblige(st, "frame", key, implies(and(hy...), goal), pos, "heap "+key+" changed outside modifies")
	}
}

// ---------------------------------------------------------------- ghost code

func (fx *FuncCtx) runGhost(st *State, anchor string, env *SpecEnv, pos token.Pos) {
	fx.curPos = pos
	for _, gb := range fx.fc.Ghost {
		if gb.At != anchor {
			continue
		}
		if !fx.ghostInScope(env, gb) {
			continue // a local named by the block does not exist on this path (the block is anchored on a state where it does)
		}
		if fx.ghostRan == nil {
			fx.ghostRan = map[string]bool{}
		}
		fx.ghostRan[gb.At+"|"+gb.Src] = true
		env.cur = st.heap
		env.atlock = st.atlock
		cond := "true"
		if gb.When != nil {
			cond = env.boolTerm(gb.When)
		}
		// all right-hand sides are evaluated in the pre-state of each statement, sequentially
		for _, gs := range gb.Stmts {
			env.cur = st.heap
			fx.ghostAssign(st, env, gs, cond)
		}
	}
}

func (fx *FuncCtx) ghostAssign(st *State, env *SpecEnv, gs GhostStmt, cond string) {
	if gs.Assume != nil {
		t := env.boolTerm(gs.Assume)
		st.assume(implies(cond, t))
		fx.trusted["assumed environment fact in "+fx.key+": "+gs.Assume.String()] = true
		return
	}
	if gs.Assert != nil {
		var side []string
		env.side = &side
		t := env.boolTerm(gs.Assert)
		for _, sd := range side {
			st.assume(sd)
		}
		env.side = nil
		name := gs.AssertName
		if name == "" {
			name = "assert"
		}
		fx.oblige(st, "ghost", name, implies(cond, t), fx.curPos, gs.Assert.String())
		st.assume(implies(cond, t))
		return
	}
	// resolve LHS: ghost field x.f, ghost map element x.f[k], ghost global g, g[k]
	var key HeapKey
	var ref string
	var idx Expr
	lhs := gs.LHS
	if ix, ok := lhs.(*EIndex); ok {
		idx = ix.I
		lhs = ix.X
	}
	var gt types.Type
	switch x := lhs.(type) {
	case *ESel:
		v := env.eval(x.X)
		nt := namedOf(v.T)
		gf, ok := fx.eng.ghostField(nt, x.Name)
		if nt == nil || !ok {
			sfail("ghost assignment to non-ghost %s", gs.LHS)
		}
		gt = gf.T
		key = fx.fieldKey(nt, "ghost$"+x.Name, fx.mode.comps(gf.T)[0])
		ref = v.s()
	case *EIdent:
		gk, ok := fx.eng.ghostGlobal(env.pkg, x.Name)
		if !ok {
			sfail("ghost assignment to unknown %s", x.Name)
		}
		gt = gk.T
		key = HeapKey{"GG$" + gk.Name, fx.mode.comps(gk.T)[0].sort}
	default:
		sfail("unsupported ghost lhs %s", gs.LHS)
	}
	cur := fx.heapGet(st.heap, key)
	curVal := cur
	if ref != "" {
		curVal = sx("select", cur, ref)
	}
	var newVal string
	switch {
	case gs.BulkVar != "":
		var gmV types.Type
		switch g := gt.(type) {
		case *GhostMap:
			gmV = g.V
		case *GhostSet:
			gmV = BoolT
		}
		if gmV == nil || idx == nil {
			sfail("bulk ghost update needs a ghost map / set element on the left")
		}
		id, ok := idx.(*EIdent)
		if !ok || id.Name != gs.BulkVar {
			sfail("bulk ghost update: index must be the bound variable")
		}
		lo := env.eval(gs.Lo).s()
		hi := env.eval(gs.Hi).s()
		fx.decls.n++
		q := fmt.Sprintf("q$%s!%d", gs.BulkVar, fx.decls.n)
		ne := env.with(map[string]Val{gs.BulkVar: {T: MathInt, C: []string{q}}})
		rhs := ne.coerce(ne.eval(gs.RHS), gmV)
		na := fx.decls.fresh("gbulk", fx.mode.comps(gt)[0].sort)
		body := eq(sx("select", na, q), ite(and(sx("<=", lo, q), sx("<", q, hi)), rhs, sx("select", curVal, q)))
		st.assume("(forall ((" + q + " Int)) (! " + body + " :pattern (" + sx("select", na, q) + ")))")
		newVal = na
	case idx != nil:
		k := env.eval(idx)
		rv := env.eval(gs.RHS)
		switch g := gt.(type) {
		case *GhostMap:
			newVal = sx("store", curVal, env.coerce(k, g.K), env.coerce(rv, g.V))
		case *GhostSet:
			newVal = sx("store", curVal, env.coerce(k, g.E), rv.s())
		default:
			sfail("indexed ghost assignment to non-map")
		}
	default:
		rv := env.eval(gs.RHS)
		newVal = env.coerce(rv, gt)
	}
	if cond != "true" {
		// guarded update as a fresh constant with two implications (keeps array terms free of ite)
		g := fx.decls.fresh("gupd", fx.mode.comps(gt)[0].sort)
		st.assume(implies(cond, eq(g, newVal)))
		st.assume(implies(not(cond), eq(g, curVal)))
		newVal = g
	}
	if ref != "" {
		fx.heapSet(st, key, sx("store", cur, ref, newVal))
	} else {
		fx.keySorts[key.Key] = key.Sort
		n := fx.decls.fresh(key.Key, key.Sort)
		st.assume(eq(n, newVal))
		st.heap[key.Key] = n
	}
}

// ---------------------------------------------------------------- static effects of calls (for loop havoc)

func (fx *FuncCtx) callEffects(cc *ssa.CallCommon, cellSet map[ssa.Value]bool, keySet map[string]HeapKey) (locks bool) {
	if isLogCall(cc) {
		return false
	}
	if b, ok := cc.Value.(*ssa.Builtin); ok {
		switch b.Name() {
		case "copy", "append":
			if sl, ok := cc.Args[0].Type().Underlying().(*types.Slice); ok {
				for _, c := range fx.mode.comps(sl.Elem()) {
					k := fx.elemKey(sl.Elem(), c)
					keySet[k.Key] = k
					if b.Name() == "copy" {
						fx.noteEff(k.Key, cc.Args[0])
					} else {
						fx.noteEff(k.Key, nil)
					}
				}
			}
		case "delete":
			if mt, ok := cc.Args[0].Type().Underlying().(*types.Map); ok {
				dom, _, _, _ := fx.mapKeys(mt)
				keySet[dom.Key] = dom
				lk := HeapKey{"ML$" + sanitize(typeStr(mt)), "(Array Int Int)"}
				keySet[lk.Key] = lk
			}
		case "close":
			k := HeapKey{"CH$closed", "(Array Int Bool)"}
			keySet[k.Key] = k
		}
		return false
	}
	var callee *ssa.Function
	var fc *FuncContract
	if cc.IsInvoke() {
		fc = fx.ifaceContract(cc)
	} else {
		callee = cc.StaticCallee()
		if callee != nil {
			switch callee.String() {
			case "(*sync.Mutex).Lock", "(*sync.RWMutex).Lock", "(*sync.RWMutex).RLock":
				// all guarded keys of the monitor type
				if fa, ok := cc.Args[0].(*ssa.FieldAddr); ok {
					root, _, base := fx.staticFieldPath(fa)
					if nt := namedOf(root); nt != nil {
						fx.monitorKeysStatic(nt, keySet, base)
					}
				}
				return true
			}
			fc = fx.eng.contractOf(callee)
			if fc == nil {
				fc = fx.eng.externContract(callee)
			}
		}
	}
	if fc == nil {
		return false
	}
	if fc.Pure {
		return false
	}
	// evaluate modifies targets with dummy arguments of the right static types
	vars := map[string]Val{}
	dummyArg := map[string]ssa.Value{}
	var curArg ssa.Value
	mk := func(name string, t types.Type) {
		v := Val{T: t}
		for i, c := range fx.mode.compsSafe(t) {
			d := fx.decls.declare(fmt.Sprintf("dummy$%s$%d", sanitize(name), i), c.sort)
			v.C = append(v.C, d)
			if curArg != nil {
				dummyArg[d] = curArg
			}
		}
		vars[name] = v
	}
	sig := cc.Signature()
	if cc.IsInvoke() {
		if fc.Recv != "" {
			curArg = cc.Value
			mk(fc.Recv, cc.Value.Type())
		}
		for i, n := range fc.Params {
			if i < sig.Params().Len() {
				curArg = nil
				if i < len(cc.Args) {
					curArg = cc.Args[i]
				}
				mk(n, sig.Params().At(i).Type())
			}
		}
	} else {
		off := 0
		if sig.Recv() != nil {
			if fc.Recv != "" {
				curArg = nil
				if len(cc.Args) > 0 {
					curArg = cc.Args[0]
				}
				mk(fc.Recv, sig.Recv().Type())
			}
			off = 1
		}
		for i, n := range fc.Params {
			if i < sig.Params().Len() {
				curArg = nil
				if i+off < len(cc.Args) {
					curArg = cc.Args[i+off]
				}
				mk(n, sig.Params().At(i).Type())
			}
		}
		curArg = nil
		if callee != nil {
			for _, fv := range callee.FreeVars {
				if pt, ok := fv.Type().Underlying().(*types.Pointer); ok {
					mk(fv.Name(), pt.Elem())
				}
			}
		}
	}
	pkg := fx.eng.typesPkg(fc.Pkg)
	env := &SpecEnv{fx: fx, pkg: pkg, vars: vars, cur: map[string]string{}, old: map[string]string{}, reveal: fx.reveal}
	for _, m := range fc.Modifies {
		for _, t := range fx.modTargets(env, m) {
			for _, k := range t.keys {
				keySet[k.Key] = k
				if t.elems {
					fx.noteEff(k.Key, dummyArg[t.ref])
				} else {
					fx.noteEff(k.Key, dummyArg[t.ref])
				}
			}
		}
	}
	if callee != nil && callee.Signature.Recv() != nil && len(fc.Locked) == 0 {
		if nt := namedOf(callee.Signature.Recv().Type()); nt != nil && fx.eng.monitorOf(nt) != nil && len(cc.Args) > 0 {
			fx.monitorKeysStatic(nt, keySet, cc.Args[0])
		}
	}
	return false
}

func (fx *FuncCtx) monitorKeysStatic(nt *types.Named, keySet map[string]HeapKey, src ssa.Value) {
	md := fx.eng.monitorOf(nt)
	if md == nil {
		return
	}
	sT := nt.Underlying().(*types.Struct)
	for _, g := range md.Guarded {
		for i := 0; i < sT.NumFields(); i++ {
			if sT.Field(i).Name() == g {
				ft := sT.Field(i).Type()
				for _, c := range fx.mode.comps(ft) {
					k := fx.fieldKey(nt, g, c)
					keySet[k.Key] = k
					fx.noteEff(k.Key, src)
				}
				if sl, ok := ft.Underlying().(*types.Slice); ok {
					for _, c := range fx.mode.comps(sl.Elem()) {
						k := fx.elemKey(sl.Elem(), c)
						keySet[k.Key] = k
						if cls, _ := fx.eng.fieldClass(nt, g); cls == "owned" {
							fx.noteEff(k.Key, nil)
						} else {
							fx.effMon[k.Key] = true // only arrays that are guarded state of a monitor change
						}
					}
				}
			}
		}
	}
	for _, gf := range fx.eng.ghostFieldsOf(nt) {
		k := fx.fieldKey(nt, "ghost$"+gf.Name, fx.mode.comps(gf.T)[0])
		keySet[k.Key] = k
		fx.noteEff(k.Key, src)
	}
}

// ---------------------------------------------------------------- closures

func (fx *FuncCtx) closureCreated(st *State, in *ssa.MakeClosure, v Val) {
	fn := v.Fn
	fc := fx.eng.contractOf(fn)
	if fc == nil {
		return
	}
	// the closure's precondition is proved where it is created
	env := fx.calleeEnv(st, fn, fc, v, nil, st.heap, st.heap)
	for i, rq := range fc.Requires {
		label := rq.Name
		if label == "" {
			label = fmt.Sprintf("#%d", i+1)
		}
		var side []string
		env.side = &side
		t := env.boolTerm(rq.E)
		for _, s := range side {
			st.assume(s)
		}
		fx.oblige(st, "closure", fn.Name()+"."+label, t, in.Pos(), fc.Key+" requires "+rq.Src)
	}
}

var _ = sort.Strings

// sprintf models fmt.Sprintf(<constant format>, args...) as an uninterpreted function of the format and the
// argument values (strings, integers, references; slices by their array identity).
func (fx *FuncCtx) sprintf(st *State, args []Val, pos token.Pos) Val {
	fs := args[0].s()
	format := ""
	for s, n := range fx.decls.strs {
		if n == fs {
			format = s
		}
	}
	if format == "" && fs != "str$empty" {
		r := fx.decls.fresh("sprintf", "Str")
		fx.trusted["fmt.Sprintf with a non-constant format: result unknown"] = true
		return Val{T: types.Typ[types.String], C: []string{r}}
	}
	var elems []Val
	if len(args) > 1 {
		if args[1].Tup == nil && len(args[1].C) == 4 && args[1].C[2] != fx.lenNum(0) && args[1].C[0] != "0" {
			fx.failf("fmt.Sprintf with an opaque argument slice")
		}
		elems = args[1].Tup
	}
	var terms, sorts []string
	for _, e := range elems {
		o := e
		if len(e.Bind) == 1 && e.Fn == nil {
			o = e.Bind[0]
		}
		t, s := fx.sprintfArg(o)
		terms = append(terms, t...)
		sorts = append(sorts, s...)
	}
	name := fx.sprintfName(format, sorts)
	fx.decls.declareFun(name, sorts, "Str")
	fx.trusted["fmt.Sprintf(\""+format+"\", ...) as an uninterpreted function of its arguments (axioms about it are listed separately)"] = true
	if len(terms) == 0 {
		fx.decls.declare(name+"$c", "Str")
		return Val{T: types.Typ[types.String], C: []string{name + "$c"}}
	}
	return Val{T: types.Typ[types.String], C: []string{sx(name, terms...)}}
}

func (fx *FuncCtx) sprintfArg(o Val) ([]string, []string) {
	cs := fx.mode.compsSafe(o.T)
	if len(cs) == 0 || len(cs) != len(o.C) {
		return []string{"0"}, []string{"Int"}
	}
	switch cs[0].kind {
	case "str":
		return []string{o.C[0]}, []string{"Str"}
	case "bool":
		return []string{o.C[0]}, []string{"Bool"}
	}
	if len(cs) == 2 && cs[0].kind == "tag" {
		return []string{o.C[1]}, []string{"Int"}
	}
	return []string{o.C[0]}, []string{cs[0].sort}
}

func (fx *FuncCtx) sprintfName(format string, sorts []string) string {
	id := fx.eng.fmtID(format)
	sig := ""
	for _, s := range sorts {
		switch s {
		case "Str":
			sig += "s"
		case "Int":
			sig += "i"
		case "Bool":
			sig += "b"
		default:
			sig += "x"
		}
	}
	return fmt.Sprintf("sprintf$%d$%s", id, sig)
}

// ghostInScope: every identifier the block mentions resolves on this path
func (fx *FuncCtx) ghostInScope(env *SpecEnv, gb GhostBlock) (ok bool) {
	defer func() {
		if r := recover(); r != nil {
			if se, isSpec := r.(specErr); isSpec && strings.Contains(se.msg, "unknown identifier") {
				ok = false
				if fx.ghostSkipped == nil {
					fx.ghostSkipped = map[string]string{}
				}
				fx.ghostSkipped[gb.At+"|"+gb.Src] = se.msg
				return
			}
			panic(r)
		}
	}()
	probe := *env
	var side []string
	probe.side = &side
	if gb.When != nil {
		probe.eval(gb.When)
	}
	for _, gs := range gb.Stmts {
		if gs.Assume != nil {
			probe.eval(gs.Assume)
			continue
		}
		if gs.Assert != nil {
			probe.eval(gs.Assert)
			continue
		}
		if gs.BulkVar == "" {
			probe.eval(gs.RHS)
			if ix, isIx := gs.LHS.(*EIndex); isIx {
				probe.eval(ix.I)
				if sel, isSel := ix.X.(*ESel); isSel {
					probe.eval(sel.X)
				}
			} else if sel, isSel := gs.LHS.(*ESel); isSel {
				probe.eval(sel.X)
			}
		}
	}
	return true
}

// assumeRefArray: every element of a fresh unknown array of references is an allocated object (or nil)
func (fx *FuncCtx) assumeRefArray(st *State, arr, keySort string) {
	fx.decls.n++
	q := fmt.Sprintf("q$ra!%d", fx.decls.n)
	st.assume("(forall ((" + q + " " + keySort + ")) (! (and (<= 0 " + sx("select", arr, q) + ") (<= " + sx("select", arr, q) + " " + st.top() + ")) :pattern (" + sx("select", arr, q) + ")))")
}
