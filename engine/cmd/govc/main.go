package main

import (
	"encoding/json"
	"flag"
	"fmt"
	"os"
	"path/filepath"
	"regexp"
	"runtime"
	"sort"
	"strconv"
	"strings"
	"time"

	"golang.org/x/tools/go/ssa"
)

type OblResult struct {
	Name     string   `json:"name"`
	Kind     string   `json:"kind"`
	Queries  int      `json:"queries"`
	Status   string   `json:"status"` // discharged | failed
	Solvers  []string `json:"solvers"`
	Seconds  float64  `json:"seconds"`
	Clause   string   `json:"clause,omitempty"`
	Pos      string   `json:"pos,omitempty"`
	failing  []*Query
}

func main() {
	if len(os.Args) < 2 {
		usage()
	}
	switch os.Args[1] {
	case "check":
		os.Exit(cmdCheck(os.Args[2:]))
	case "replay":
		os.Exit(cmdReplay(os.Args[2:]))
	case "list":
		os.Exit(cmdList(os.Args[2:]))
	case "lockset":
		os.Exit(cmdLockset(os.Args[2:]))
	case "selftest":
		os.Exit(cmdSelftest(os.Args[2:]))
	default:
		usage()
	}
}

func usage() {
	fmt.Fprintln(os.Stderr, "usage: govc check --property ID [--tier quick|thorough] | govc check --func pkg:Key | govc replay FILE | govc list | govc selftest --property ID")
	os.Exit(2)
}

func envInt(name string, def int) int {
	if v := os.Getenv(name); v != "" {
		if i, err := strconv.Atoi(v); err == nil {
			return i
		}
	}
	return def
}

type checkOpts struct {
	repo, verif, property, fn, tier, dump string
	verbose                              bool
	noEvidence                           bool
	genOnly                              bool
}

func cmdCheck(args []string) int {
	fs := flag.NewFlagSet("check", flag.ExitOnError)
	var o checkOpts
	fs.StringVar(&o.repo, "repo", "/repo", "repository root")
	fs.StringVar(&o.verif, "verif", "/verif", "verif root")
	fs.StringVar(&o.property, "property", "", "property id")
	fs.StringVar(&o.fn, "func", "", "single function pkg:Key (development)")
	fs.StringVar(&o.tier, "tier", "", "quick|thorough")
	fs.StringVar(&o.dump, "dump", "", "keep SMT files in this directory")
	fs.BoolVar(&o.verbose, "v", false, "verbose")
	fs.BoolVar(&o.noEvidence, "no-evidence", false, "do not write evidence / replays")
	fs.BoolVar(&o.genOnly, "gen-only", false, "generate obligations and print counts, do not solve")
	fs.Parse(args)
	if o.tier == "" {
		o.tier = os.Getenv("VERIF_TIER")
	}
	if o.tier != "thorough" {
		o.tier = "quick"
	}
	verifRoot = o.verif
	res := runCheck(o)
	return res.exit
}

type checkResult struct {
	exit       int
	obls       []*OblResult
	violations []string
}

func runCheck(o checkOpts) checkResult {
	t0 := time.Now()
	seed := envInt("VERIF_SEED", 1)
	eng, err := loadEngine(o.repo, []string{"./..."}, "verif")
	if err != nil {
		fmt.Fprintln(os.Stderr, "govc: load error:", err)
		return checkResult{exit: 2}
	}
	loadS := time.Since(t0).Seconds()
	var targets []propFn
	if o.fn != "" {
		parts := strings.SplitN(o.fn, ":", 2)
		path := parts[0]
		if !strings.HasPrefix(path, modPath) {
			path = modPath + "/" + path
		}
		key, tags := parts[1], ""
		if i := strings.Index(key, "@"); i >= 0 {
			key, tags = key[:i], key[i+1:]
		}
		targets = []propFn{{path, key, tags}}
	} else {
		targets = eng.propertyFuncs(o.property)
		hasLockset := false
		for _, pc := range eng.contracts {
			if len(pc.Locksets[o.property]) > 0 {
				hasLockset = true
			}
		}
		if len(targets) == 0 && !hasLockset {
			fmt.Fprintf(os.Stderr, "govc: no functions registered for property %s\n", o.property)
			return checkResult{exit: 2}
		}
	}
	var queries []*Query
	var fxs []*FuncCtx
	var genErrs []string
	var stale []*OblResult
	var dropped []string
	seen := map[string]bool{}
	engines := map[string]*Engine{"": eng}
	for _, t := range targets {
		if seen[t.pkg+":"+t.key+"@"+t.tags] {
			continue
		}
		seen[t.pkg+":"+t.key+"@"+t.tags] = true
		te := engines[t.tags]
		if te == nil {
			// a build-tag variant of the package (e.g. the pre-go1.20 xor implementation)
			var lerr error
			te, lerr = loadEngine(o.repo, []string{"./" + strings.TrimPrefix(t.pkg, modPath+"/")}, "verif,"+t.tags)
			if lerr != nil {
				genErrs = append(genErrs, lerr.Error())
				continue
			}
			engines[t.tags] = te
		}
		if te.funcs[t.pkg+":"+t.key] == nil && unexportedHelper(t.key) {
			if pc := te.contracts[t.pkg]; pc == nil || pc.Funcs[t.key] == nil || !pc.Funcs[t.key].Env {
				// an unexported helper under contract was removed or inlined at its call sites: nothing of it is left
				// to verify; its former callers under contract are verified against the code they contain now
				dropped = append(dropped, "contract of "+t.key+" has no function in the working tree (unexported helper removed or inlined); its callers are verified against their current bodies")
				continue
			}
		}
		fx, err := te.verifyFunc(t.pkg, t.key)
		if sc0, isStale := err.(*staleContractErr); isStale && err != nil {
			if fx2 := recoverRename(te, t.pkg, t.key, sc0, o); fx2 != nil {
				fx, err = fx2, nil
			}
		}
		if err != nil {
			if sc, ok := err.(*staleContractErr); ok {
				name := strings.TrimPrefix(t.pkg[len(modPath):]+"."+t.key+"/contract[fits]", "/")
				stale = append(stale, &OblResult{Name: name, Kind: "contract", Status: "failed", Queries: 1, Solvers: []string{"govc"},
					Clause: "the contract of " + t.key + " applies to its body: " + sc.msg,
					failing: []*Query{{Obl: name, Kind: "contract", Status: "contract-does-not-fit", Solver: "govc", Clause: sc.msg, Output: sc.Error()}}})
				continue
			}
			genErrs = append(genErrs, err.Error())
			continue
		}
		if fx2 := retryWithoutOptional(te, t.pkg, t.key, fx); fx2 != nil {
			fx = fx2
		}
		fxs = append(fxs, fx)
		queries = append(queries, fx.queries...)
	}
	genS := time.Since(t0).Seconds() - loadS
	if o.genOnly {
		cnt := map[string]int{}
		size := map[string]int{}
		for _, q := range queries {
			cnt[q.Obl]++
			size[q.Obl] += len(q.Goal)
			for _, h := range q.Hyps {
				size[q.Obl] += len(h)
			}
		}
		for _, k := range sortedKeys(cnt) {
			fmt.Printf("%5d q %9d B  %s\n", cnt[k], size[k], k)
		}
		fmt.Printf("total %d queries, errors: %v\n", len(queries), genErrs)
		return checkResult{}
	}
	dir := o.dump
	if dir == "" {
		dir, _ = os.MkdirTemp("", "govc-smt-")
		defer os.RemoveAll(dir)
	} else {
		os.MkdirAll(dir, 0o755)
	}
	sv := &Solver{dir: dir, workers: runtime.NumCPU(), quickT: 4, longT: 20, instT: 20, seed: seed, cache: map[string]*solveResult{}, perSolver: map[string]*solverStat{}, keep: o.dump != "", progress: o.verbose}
	if o.tier == "thorough" {
		sv.quickT, sv.longT, sv.instT = 10, 120, 60
	}
	if v := envInt("GOVC_T1", 0); v > 0 {
		sv.quickT = v
	}
	if v := envInt("GOVC_TI", 0); v > 0 {
		sv.instT = v
	}
	if v := envInt("GOVC_T2", 0); v > 0 {
		sv.longT = v
	}
	if v := envInt("GOVC_WORKERS", 0); v > 0 {
		sv.workers = v
	}
	sv.solveAll(queries)
	solveS := time.Since(t0).Seconds() - loadS - genS

	// group by obligation
	byName := map[string]*OblResult{}
	var order []string
	vacuous := []*Query{}
	groupAll := map[string][]*Query{}
	for _, q := range queries {
		if q.Canary {
			if q.AnyOf != "" {
				groupAll[q.Obl] = append(groupAll[q.Obl], q)
				continue
			}
			if q.PreOnly {
				continue
			}
			if q.Status == "unsat" && !(q.Pre != nil && q.Pre.Status == "unsat") {
				// (a lock whose surrounding path is already unreachable under the contract is dead code, not a vacuous contract)
				vacuous = append(vacuous, q)
			}
			continue
		}
		r := byName[q.Obl]
		if r == nil {
			r = &OblResult{Name: q.Obl, Kind: q.Kind, Status: "discharged", Clause: q.Clause, Pos: q.Pos}
			byName[q.Obl] = r
			order = append(order, q.Obl)
		}
		r.Queries++
		r.Seconds += q.Seconds
		if !contains(r.Solvers, strings.TrimSuffix(q.Solver, "(cached)")) {
			r.Solvers = append(r.Solvers, strings.TrimSuffix(q.Solver, "(cached)"))
		}
		if q.Status != "unsat" {
			r.Status = "failed"
			r.failing = append(r.failing, q)
		}
	}
	for _, g := range groupAll {
		all := true
		for _, q := range g {
			if q.Status != "unsat" {
				all = false
			}
		}
		if all && len(g) > 0 {
			vacuous = append(vacuous, g[0])
		}
	}
	sort.Strings(order)
	var obls []*OblResult
	for _, n := range order {
		obls = append(obls, byName[n])
	}
	obls = append(obls, stale...)
	var lockTrusted []string
	lockTrusted = append(lockTrusted, dropped...)
	nLockTypes := 0
	if o.property != "" {
		lobls, ltr, nt := eng.lockObligations(o.property)
		lockTrusted, nLockTypes = append(lockTrusted, ltr...), nt
		for _, lo := range lobls {
			if lo.Status != "discharged" {
				lo.failing = []*Query{{Obl: lo.Name, Kind: "held", Status: "lockset", Solver: "lockset", Clause: lo.Clause, Pos: lo.Pos, Output: lo.Clause}}
			}
			obls = append(obls, lo)
		}
		sort.Slice(obls, func(i, j int) bool { return obls[i].Name < obls[j].Name })
	}
	res := checkResult{obls: obls}
	rep := &report{o: o, eng: eng, fxs: fxs, obls: obls, vacuous: vacuous, genErrs: genErrs, seed: seed, sv: sv,
		loadS: loadS, genS: genS, solveS: solveS, nq: len(queries), t0: t0, lockTrusted: lockTrusted, nLockTypes: nLockTypes}
	res.exit = rep.finish()
	return res
}

func contains(xs []string, s string) bool {
	for _, x := range xs {
		if x == s {
			return true
		}
	}
	return false
}

func cmdList(args []string) int {
	eng, err := loadEngine("/repo", []string{"./..."}, "verif")
	if err != nil {
		fmt.Fprintln(os.Stderr, err)
		return 2
	}
	for _, id := range eng.allProperties() {
		fmt.Println(id)
		for _, f := range eng.propertyFuncs(id) {
			fmt.Printf("  %s:%s\n", strings.TrimPrefix(f.pkg, modPath+"/"), f.key)
		}
	}
	return 0
}

func writeJSON(path string, v any) error {
	b, err := json.MarshalIndent(v, "", " ")
	if err != nil {
		return err
	}
	os.MkdirAll(filepath.Dir(path), 0o755)
	return os.WriteFile(path, append(b, '\n'), 0o644)
}

// recoverRename: a loop invariant or ghost block names a local variable the function no longer has.  Invariants and
// ghost code are auxiliary: any choice that makes every obligation of the function discharge is a valid proof.  So the
// locals of the function that the contract does not mention are tried in place of the missing name; a candidate is
// accepted only if the whole function then verifies.  (Postconditions never mention locals, they are not affected.)
func recoverRename(e *Engine, pkg, key string, sc *staleContractErr, o checkOpts) *FuncCtx {
	full := pkg + ":" + key
	fn := e.funcs[full]
	pc := e.contracts[pkg]
	if fn == nil || pc == nil || pc.Funcs[key] == nil {
		return nil
	}
	if e.renameTry == nil {
		e.renameTry = map[string]map[string]string{}
	}
	text := contractText(pc.Funcs[key])
	var locals []string
	seen := map[string]bool{}
	for _, b := range fn.Blocks {
		for _, in := range b.Instrs {
			if a, ok := in.(*ssa.Alloc); ok && a.Comment != "" && !strings.ContainsAny(a.Comment, "$ ") && !seen[a.Comment] {
				seen[a.Comment] = true
				if !regexp.MustCompile(`(^|[^.\w$])` + regexp.QuoteMeta(a.Comment) + `\b`).MatchString(text) {
					locals = append(locals, a.Comment)
				}
			}
		}
	}
	sort.Strings(locals)
	if os.Getenv("GOVC_DEBUG_RENAME") != "" {
		fmt.Fprintln(os.Stderr, "rename: locals not named by the contract:", locals, "error:", sc.msg)
	}
	budget := 120 // generated candidates
	var search func(cur map[string]string, sc *staleContractErr, depth int) *FuncCtx
	search = func(cur map[string]string, sc *staleContractErr, depth int) *FuncCtx {
		m := regexp.MustCompile(`unknown identifier "([^"]+)"`).FindStringSubmatch(sc.msg)
		if m == nil || depth > 3 {
			return nil
		}
		missing := m[1]
		used := map[string]bool{}
		for _, v := range cur {
			used[v] = true
		}
		for _, c := range locals {
			if used[c] || budget <= 0 {
				continue
			}
			budget--
			try := map[string]string{missing: c}
			for k, v := range cur {
				try[k] = v
			}
			e.renameTry[full] = try
			fx, err := func() (fx *FuncCtx, err error) {
				// a candidate of the wrong type makes the evaluation of the clause panic: simply not a match
				defer func() {
					if r := recover(); r != nil {
						fx, err = nil, fmt.Errorf("candidate rejected: %v", r)
					}
				}()
				return e.verifyFunc(pkg, key)
			}()
			if os.Getenv("GOVC_DEBUG_RENAME") != "" {
				fmt.Fprintln(os.Stderr, "rename: try", try, "->", err)
			}
			if err != nil {
				if sc2, ok := err.(*staleContractErr); ok && !strings.Contains(sc2.msg, `"`+missing+`"`) && strings.Contains(sc2.msg, "unknown identifier") {
					outOfScope := false
					for _, v := range try {
						if strings.Contains(sc2.msg, `"`+v+`"`) {
							outOfScope = true // the candidate itself does not exist at the program point of the clause
						}
					}
					if !outOfScope {
						if fx2 := search(try, sc2, depth+1); fx2 != nil {
							return fx2
						}
					}
				}
				continue
			}
			dir, _ := os.MkdirTemp("", "govc-rename-")
			sv := &Solver{dir: dir, workers: runtime.NumCPU(), quickT: 4, longT: 20, instT: 20, seed: 1, cache: map[string]*solveResult{}, perSolver: map[string]*solverStat{}}
			sv.solveAll(fx.queries)
			os.RemoveAll(dir)
			ok := true
			for _, q := range fx.queries {
				if !q.Canary && q.Status != "unsat" {
					ok = false
				}
			}
			if ok {
				fx.trusted[fmt.Sprintf("contract of %s names local(s) %v; the function has %v instead (accepted because every obligation discharges with the substitution)", key, keysOf(try), valuesOf(try))] = true
				return fx
			}
		}
		return nil
	}
	if fx := search(map[string]string{}, sc, 1); fx != nil {
		return fx
	}
	delete(e.renameTry, full)
	return nil
}

func contractText(fc *FuncContract) string {
	var sb strings.Builder
	for _, c := range fc.Requires {
		sb.WriteString(c.Src + "\n")
	}
	for _, c := range fc.Ensures {
		sb.WriteString(c.Src + "\n")
	}
	for _, l := range fc.Loops {
		for _, c := range l.Invs {
			sb.WriteString(c.Src + "\n")
		}
	}
	for _, g := range fc.Ghost {
		sb.WriteString(g.Src + "\n")
	}
	return sb.String()
}

func keysOf(m map[string]string) []string {
	var out []string
	for k := range m {
		out = append(out, k)
	}
	sort.Strings(out)
	return out
}

func valuesOf(m map[string]string) []string {
	var out []string
	for _, k := range keysOf(m) {
		out = append(out, m[k])
	}
	return out
}

// retryWithoutOptional: `invariant?` clauses are proof aids for one loop shape.  If the only obligations of a function that
// fail are the establishment / preservation of such clauses, the function is verified again without them; that proof
// stands on its own (nothing was assumed from the dropped clauses).
func retryWithoutOptional(e *Engine, pkg, key string, fx *FuncCtx) *FuncCtx {
	fc := fx.fc
	optional := map[string]bool{}
	for k, l := range fc.Loops {
		for i, c := range l.Invs {
			if c.Optional {
				label := c.Name
				if label == "" {
					label = fmt.Sprintf("#%d", i+1)
				}
				optional[fmt.Sprintf("/loop%d/entry[%s]", k, label)] = true
				optional[fmt.Sprintf("/loop%d/preserve[%s]", k, label)] = true
			}
		}
	}
	if len(optional) == 0 {
		return nil
	}
	solve := func(f *FuncCtx) (failedOptionalOnly bool, anyFail bool) {
		dir, _ := os.MkdirTemp("", "govc-opt-")
		sv := &Solver{dir: dir, workers: runtime.NumCPU(), quickT: 3, longT: 5, instT: 5, seed: 1, cache: map[string]*solveResult{}, perSolver: map[string]*solverStat{}}
		sv.solveAll(f.queries)
		os.RemoveAll(dir)
		failedOptionalOnly = true
		for _, q := range f.queries {
			if q.Canary || q.Status == "unsat" {
				continue
			}
			anyFail = true
			isOpt := false
			for suf := range optional {
				if strings.HasSuffix(q.Obl, suf) {
					isOpt = true
				}
			}
			if !isOpt {
				failedOptionalOnly = false
			}
		}
		return failedOptionalOnly, anyFail
	}
	onlyOpt, anyFail := solve(fx)
	if !anyFail || !onlyOpt {
		return nil
	}
	if e.dropOptional == nil {
		e.dropOptional = map[string]bool{}
	}
	e.dropOptional[pkg+":"+key] = true
	fx2, err := e.verifyFunc(pkg, key)
	if err != nil {
		delete(e.dropOptional, pkg+":"+key)
		return nil
	}
	fx2.trusted["optional loop invariants of "+key+" do not hold for this loop shape and were dropped; the function is verified without them"] = true
	return fx2
}

// unexportedHelper: the last component of a function key (T.m, f; not a closure f$1) starts with a lower-case letter.
func unexportedHelper(key string) bool {
	if strings.Contains(key, "$") {
		return false
	}
	name := key
	if i := strings.LastIndex(key, "."); i >= 0 {
		name = key[i+1:]
	}
	return name != "" && name[0] >= 'a' && name[0] <= 'z'
}
