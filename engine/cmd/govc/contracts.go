package main

// Contract files: /repo/<pkg>/zz_contracts_verif.go, build tag verif, //@ lines.

import (
	"bufio"
	"fmt"
	"go/ast"
	"go/parser"
	"go/token"
	"os"
	"path/filepath"
	"regexp"
	"sort"
	"strings"
)

type Clause struct {
	Name string // optional [name]
	Optional bool // `invariant?`: dropped when it names a local the function does not have
	Src  string
	E    Expr
	Line int
}

type GhostBlock struct {
	At    string // entry | return | unlock | lock | before <callee>#k | after <callee>#k | loop k
	When  Expr
	Stmts []GhostStmt
	Src   string
	Line  int
}

type LoopSpec struct {
	Invs []Clause
}

type FuncContract struct {
	Pkg      string // package path
	Key      string // Type.Method or Func
	Header   string
	Recv     string // receiver name
	RecvType string
	Params   []string
	Results  []string
	Requires []Clause
	Ensures  []Clause
	Modifies []Expr
	ModSrc   []string
	Loops    map[int]*LoopSpec
	Ghost    []GhostBlock
	Asserts  []Clause // assert at <anchor>: not used yet
	Mode     Mode
	ModeSet  bool
	Extern   bool
	Pure     bool // no heap effect
	Locked   []Expr   // mutexes held at entry (and exit)
	Roles    []string // roles this function acts in (it may assume the rely conditions of that role)
	Ctor     bool
	Trusted  bool // body not verified (listed in trusted base)
	NoEffect bool
	Line     int
	Props    map[string]bool
	Env      bool // environment action (no body)
	Lemma    bool
	Opts     map[string]string
}

type PureFunc struct {
	Pkg      string
	Key      string // Type.name or name
	Recv     string
	RecvType string
	Params   []Binder
	Result   string
	Body     Expr
	Opaque   bool
	Uninterpreted bool
	Src      string
	Line     int
}

type Invariant struct {
	Role string // for rely clauses
	Pkg      string
	Type     string
	Recv     string
	Name     string
	E        Expr
	Src      string
	Line     int
}

type GhostField struct {
	Type string
	Name string
	GTyp string
}

type FieldDecl struct {
	Type  string
	Name  string
	Class string // owned | immutable | guarded_by <mu> | config | atomic | handoff | channel | confined
	Arg   string
}

type MonitorDecl struct {
	Type    string
	Mutex   string
	Guarded []string
	Owns    []string // types whose objects are reachable only through this monitor (their fields are guarded by its mutex)
}

type AxiomDecl struct {
	Name string
	E    Expr
	Src  string
}

type PkgContracts struct {
	Path     string
	Dir      string
	File     string
	Mode     Mode
	Funcs    map[string]*FuncContract
	Pures    map[string]*PureFunc
	Invs     map[string][]*Invariant // by type
	Relies   map[string][]*Invariant // by type; Role = role that may assume it
	Ghosts   map[string][]GhostField // by type
	Fields   []FieldDecl
	Monitors map[string]*MonitorDecl
	Axioms   []AxiomDecl
	Props    map[string][]string // property -> function keys
	Locksets map[string][]string // property -> types whose fields carry lock-discipline obligations
	GhostGlobals []GhostField
	Assumptions []string
	NLines   int
}

var kwRe = regexp.MustCompile(`^(arith|monitor|field|ghost|pure|opaque|invariant|func|extern|trusted|lemma|env|does|requires|ensures|modifies|loop|axiom|property|lockset|global|uf|locked|constructor|noeffect|assume|option|note|rely|role)\b`)

var nameTagRe = regexp.MustCompile(`^\[([A-Za-z0-9_.\-]+)\]\s*`)

func loadContracts(pkgPath, dir string) (*PkgContracts, error) {
	return loadContractsFile(pkgPath, dir, filepath.Join(dir, "zz_contracts_verif.go"))
}

func loadContractsFile(pkgPath, dir, file string) (*PkgContracts, error) {
	pc := &PkgContracts{Path: pkgPath, Dir: dir, Funcs: map[string]*FuncContract{}, Pures: map[string]*PureFunc{},
		Invs: map[string][]*Invariant{}, Ghosts: map[string][]GhostField{}, Monitors: map[string]*MonitorDecl{}, Props: map[string][]string{}}
	pc.File = file
	f, err := os.Open(file)
	if err != nil {
		if os.IsNotExist(err) {
			return pc, nil
		}
		return nil, err
	}
	defer f.Close()
	type rawClause struct {
		text string
		line int
	}
	var raws []rawClause
	sc := bufio.NewScanner(f)
	sc.Buffer(make([]byte, 1<<20), 1<<20)
	ln := 0
	for sc.Scan() {
		ln++
		line := strings.TrimSpace(sc.Text())
		var body string
		switch {
		case strings.HasPrefix(line, "//@"):
			body = line[3:]
		case strings.HasPrefix(line, "// @"):
			body = line[4:]
		default:
			continue
		}
		pc.NLines++
		// strip trailing comments introduced by " // "
		if i := strings.Index(body, " // "); i >= 0 {
			body = body[:i]
		}
		tb := strings.TrimSpace(body)
		if tb == "" {
			continue
		}
		if kwRe.MatchString(tb) {
			raws = append(raws, rawClause{tb, ln})
		} else {
			if len(raws) == 0 {
				return nil, fmt.Errorf("%s:%d: continuation without clause", file, ln)
			}
			raws[len(raws)-1].text += " " + tb
		}
	}
	var cur *FuncContract
	fail := func(line int, format string, args ...any) error {
		return fmt.Errorf("%s:%d: %s", file, line, fmt.Sprintf(format, args...))
	}
	for _, rc := range raws {
		kw := kwRe.FindString(rc.text)
		rest := strings.TrimSpace(rc.text[len(kw):])
		switch kw {
		case "arith":
			m := ModeInt
			if strings.HasPrefix(rest, "bv") {
				m = ModeBV
			}
			if cur != nil {
				cur.Mode, cur.ModeSet = m, true
			} else {
				pc.Mode = m
			}
		case "monitor":
			// monitor Type mutexField: f1, f2, ...
			parts := strings.SplitN(rest, ":", 2)
			hd := strings.Fields(parts[0])
			if len(hd) != 2 {
				return nil, fail(rc.line, "monitor: want `monitor Type mutex: fields`")
			}
			md := &MonitorDecl{Type: hd[0], Mutex: hd[1]}
			if len(parts) == 2 {
				if i := strings.Index(parts[1], "; owns "); i >= 0 {
					for _, o := range strings.Split(parts[1][i+7:], ",") {
						if o = strings.TrimSpace(o); o != "" {
							md.Owns = append(md.Owns, o)
						}
					}
					parts[1] = parts[1][:i]
				}
				for _, g := range strings.Split(parts[1], ",") {
					if g = strings.TrimSpace(g); g != "" {
						md.Guarded = append(md.Guarded, g)
					}
				}
			}
			pc.Monitors[md.Type] = md
			cur = nil
		case "field":
			// field Type name class [arg]
			fs := strings.Fields(rest)
			if len(fs) < 3 {
				return nil, fail(rc.line, "field: want `field Type name class`")
			}
			fd := FieldDecl{Type: fs[0], Name: fs[1], Class: fs[2]}
			if len(fs) > 3 {
				fd.Arg = strings.Join(fs[3:], " ")
			}
			pc.Fields = append(pc.Fields, fd)
			cur = nil
		case "ghost":
			if cur != nil && (strings.HasPrefix(rest, "at ") || strings.HasPrefix(rest, "before ") || strings.HasPrefix(rest, "after ")) {
				gb, err := parseGhostBlock(rest)
				if err != nil {
					return nil, fail(rc.line, "%v", err)
				}
				gb.Line = rc.line
				cur.Ghost = append(cur.Ghost, *gb)
				continue
			}
			// ghost Type name gtype   |  ghost global name gtype
			fs := strings.Fields(rest)
			if len(fs) < 3 {
				return nil, fail(rc.line, "ghost: want `ghost Type name type`")
			}
			gf := GhostField{Type: fs[0], Name: fs[1], GTyp: strings.Join(fs[2:], "")}
			if fs[0] == "global" {
				pc.GhostGlobals = append(pc.GhostGlobals, gf)
			} else {
				pc.Ghosts[fs[0]] = append(pc.Ghosts[fs[0]], gf)
			}
			cur = nil
		case "pure", "opaque":
			if kw == "pure" && rest == "" && cur != nil {
				cur.Pure = true
				continue
			}
			opaque := kw == "opaque"
			if opaque {
				rest = strings.TrimSpace(strings.TrimPrefix(rest, "pure"))
			}
			pf, err := parsePure(rest)
			if err != nil {
				return nil, fail(rc.line, "%v", err)
			}
			pf.Opaque = opaque
			pf.Pkg = pkgPath
			pf.Line = rc.line
			pc.Pures[pf.Key] = pf
			cur = nil
		case "invariant":
			// invariant (b *Buffer) name: expr
			m := regexp.MustCompile(`^\((\w+)\s+\*?(\w+)\)\s+([\w.]+)\s*:\s*(.*)$`).FindStringSubmatch(rest)
			if m == nil {
				return nil, fail(rc.line, "invariant: want `invariant (r *T) name: expr`")
			}
			e, err := ParseExpr(m[4])
			if err != nil {
				return nil, fail(rc.line, "%v", err)
			}
			pc.Invs[m[2]] = append(pc.Invs[m[2]], &Invariant{Pkg: pkgPath, Type: m[2], Recv: m[1], Name: m[3], E: e, Src: m[4], Line: rc.line})
			cur = nil
		case "rely":
			// rely (q *T) role.name: two-state expr   (old(..) = the state this thread saw last)
			m := regexp.MustCompile(`^\((\w+)\s+\*?(\w+)\)\s+(\w+)\.([\w.]+)\s*:\s*(.*)$`).FindStringSubmatch(rest)
			if m == nil {
				return nil, fail(rc.line, "rely: want `rely (r *T) role.name: expr`")
			}
			e, err := ParseExpr(m[5])
			if err != nil {
				return nil, fail(rc.line, "%v", err)
			}
			if pc.Relies == nil {
				pc.Relies = map[string][]*Invariant{}
			}
			pc.Relies[m[2]] = append(pc.Relies[m[2]], &Invariant{Pkg: pkgPath, Type: m[2], Recv: m[1], Role: m[3], Name: m[4], E: e, Src: m[5], Line: rc.line})
			cur = nil
		case "role":
			if cur == nil {
				return nil, fail(rc.line, "role outside func")
			}
			cur.Roles = append(cur.Roles, strings.Fields(rest)...)
		case "func", "extern", "trusted", "lemma", "env":
			hdr := rest
			if kw != "func" {
				hdr = strings.TrimSpace(strings.TrimPrefix(rest, "func"))
			}
			fc, err := parseFuncHeader(hdr)
			if err != nil {
				return nil, fail(rc.line, "%v", err)
			}
			fc.Pkg = pkgPath
			fc.Line = rc.line
			fc.Mode = pc.Mode
			fc.Extern = kw == "extern"
			fc.Trusted = kw == "trusted"
			fc.Lemma = kw == "lemma"
			fc.Env = kw == "env"
			if _, dup := pc.Funcs[fc.Key]; dup {
				return nil, fail(rc.line, "duplicate contract for %s", fc.Key)
			}
			pc.Funcs[fc.Key] = fc
			cur = fc
		case "requires", "ensures":
			if cur == nil {
				return nil, fail(rc.line, "%s outside func", kw)
			}
			cl := Clause{Line: rc.line}
			if m := nameTagRe.FindStringSubmatch(rest); m != nil {
				cl.Name = m[1]
				rest = rest[len(m[0]):]
			}
			cl.Src = rest
			e, err := ParseExpr(rest)
			if err != nil {
				return nil, fail(rc.line, "%v", err)
			}
			cl.E = e
			if kw == "requires" {
				cur.Requires = append(cur.Requires, cl)
			} else {
				cur.Ensures = append(cur.Ensures, cl)
			}
		case "modifies":
			if cur == nil {
				return nil, fail(rc.line, "modifies outside func")
			}
			for _, part := range splitTop(rest, ',') {
				part = strings.TrimSpace(part)
				if part == "" {
					continue
				}
				src := part
				star := false
				if strings.HasSuffix(part, "[*]") {
					star = true
					part = strings.TrimSuffix(part, "[*]")
				}
				e, err := ParseExpr(part)
				if err != nil {
					return nil, fail(rc.line, "%v", err)
				}
				if star {
					e = &EIndex{e, &EIdent{"*"}}
				}
				cur.Modifies = append(cur.Modifies, e)
				cur.ModSrc = append(cur.ModSrc, src)
			}
		case "loop":
			if cur == nil {
				return nil, fail(rc.line, "loop outside func")
			}
			m := regexp.MustCompile(`^(\d+)\s+invariant\??\s+(.*)$`).FindStringSubmatch(rest)
			optionalInv := regexp.MustCompile(`^\d+\s+invariant\?`).MatchString(rest)
			if m == nil {
				return nil, fail(rc.line, "loop: want `loop K invariant [name] expr`")
			}
			var k int
			fmt.Sscan(m[1], &k)
			body := m[2]
			cl := Clause{Line: rc.line, Optional: optionalInv}
			if mm := nameTagRe.FindStringSubmatch(body); mm != nil {
				cl.Name = mm[1]
				body = body[len(mm[0]):]
			}
			cl.Src = body
			e, err := ParseExpr(body)
			if err != nil {
				return nil, fail(rc.line, "%v", err)
			}
			cl.E = e
			if cur.Loops == nil {
				cur.Loops = map[int]*LoopSpec{}
			}
			if cur.Loops[k] == nil {
				cur.Loops[k] = &LoopSpec{}
			}
			cur.Loops[k].Invs = append(cur.Loops[k].Invs, cl)
		case "does":
			if cur == nil || !cur.Env {
				return nil, fail(rc.line, "does outside env")
			}
			st, err := ParseGhostStmts(rest)
			if err != nil {
				return nil, fail(rc.line, "%v", err)
			}
			cur.Ghost = append(cur.Ghost, GhostBlock{At: "env", Stmts: st, Src: rest, Line: rc.line})
		case "locked":
			if cur == nil {
				return nil, fail(rc.line, "locked outside func")
			}
			e, err := ParseExpr(rest)
			if err != nil {
				return nil, fail(rc.line, "%v", err)
			}
			cur.Locked = append(cur.Locked, e)
		case "constructor":
			if cur != nil {
				cur.Ctor = true
			}
		case "noeffect":
			if cur != nil {
				cur.NoEffect = true
			}
		case "option":
			if cur != nil {
				kv := strings.SplitN(rest, "=", 2)
				if cur.Opts == nil {
					cur.Opts = map[string]string{}
				}
				if len(kv) == 2 {
					cur.Opts[strings.TrimSpace(kv[0])] = strings.TrimSpace(kv[1])
				} else {
					cur.Opts[strings.TrimSpace(kv[0])] = "true"
				}
			}
		case "axiom":
			m := regexp.MustCompile(`^([\w.]+)\s*:\s*(.*)$`).FindStringSubmatch(rest)
			if m == nil {
				return nil, fail(rc.line, "axiom: want `axiom name: expr`")
			}
			e, err := ParseExpr(m[2])
			if err != nil {
				return nil, fail(rc.line, "%v", err)
			}
			pc.Axioms = append(pc.Axioms, AxiomDecl{m[1], e, m[2]})
			cur = nil
		case "property":
			// property C06 C07: f1, f2
			parts := strings.SplitN(rest, ":", 2)
			if len(parts) != 2 {
				return nil, fail(rc.line, "property: want `property IDs: funcs`")
			}
			var fns []string
			for _, s := range strings.FieldsFunc(parts[1], func(r rune) bool { return r == ',' || r == ' ' }) {
				fns = append(fns, s)
			}
			tags := ""
			for _, id := range strings.Fields(parts[0]) {
				if strings.HasPrefix(id, "tags=") {
					tags = strings.TrimPrefix(id, "tags=")
				}
			}
			for _, id := range strings.Fields(parts[0]) {
				if strings.HasPrefix(id, "tags=") {
					continue
				}
				for _, f := range fns {
					if tags != "" {
						f = f + "@" + tags
					}
					pc.Props[id] = append(pc.Props[id], f)
				}
			}
			cur = nil
		case "uf":
			// uninterpreted specification function: uf name(a T, b U) R
			fc, ptypes, rtypes, err := parseHeaderFull(rest)
			if err != nil {
				return nil, fail(rc.line, "%v", err)
			}
			pf := &PureFunc{Key: fc.Key, Recv: fc.Recv, RecvType: fc.RecvType, Pkg: pkgPath, Line: rc.line, Uninterpreted: true}
			for k, p := range fc.Params {
				pf.Params = append(pf.Params, Binder{p, ptypes[k]})
			}
			if len(rtypes) > 0 {
				pf.Result = rtypes[0]
			}
			pc.Pures[pf.Key] = pf
			cur = nil
		case "lockset":
			parts := strings.SplitN(rest, ":", 2)
			if len(parts) != 2 {
				return nil, fail(rc.line, "lockset: want `lockset ID: Type, ...`")
			}
			if pc.Locksets == nil {
				pc.Locksets = map[string][]string{}
			}
			for _, id := range strings.Fields(parts[0]) {
				for _, t := range strings.FieldsFunc(parts[1], func(r rune) bool { return r == ',' || r == ' ' }) {
					pc.Locksets[id] = append(pc.Locksets[id], t)
				}
			}
			cur = nil
		case "global":
			fs := strings.Fields(rest)
			if len(fs) < 2 {
				return nil, fail(rc.line, "global: want `global name class`")
			}
			pc.Fields = append(pc.Fields, FieldDecl{Type: "global", Name: fs[0], Class: fs[1], Arg: strings.Join(fs[2:], " ")})
			cur = nil
		case "assume", "note":
			pc.Assumptions = append(pc.Assumptions, rest)
		}
	}
	return pc, nil
}

func parseGhostBlock(rest string) (*GhostBlock, error) {
	// at <anchor> [when cond]: stmts
	i := indexTop(rest, ':')
	if i < 0 {
		return nil, fmt.Errorf("ghost block: missing ':' in %q", rest)
	}
	head := strings.TrimSpace(rest[:i])
	body := rest[i+1:]
	gb := &GhostBlock{Src: rest}
	if j := strings.Index(head, " when "); j >= 0 {
		e, err := ParseExpr(head[j+6:])
		if err != nil {
			return nil, err
		}
		gb.When = e
		head = strings.TrimSpace(head[:j])
	}
	gb.At = strings.TrimSpace(strings.TrimPrefix(head, "at "))
	st, err := ParseGhostStmts(body)
	if err != nil {
		return nil, err
	}
	gb.Stmts = st
	return gb, nil
}

func indexTop(s string, c byte) int {
	d := 0
	for i := 0; i < len(s); i++ {
		switch s[i] {
		case '(', '[', '{':
			d++
		case ')', ']', '}':
			d--
		default:
			if s[i] == c && d == 0 {
				if c == ':' && i+1 < len(s) && s[i+1] == ':' {
					i++
					continue
				}
				return i
			}
		}
	}
	return -1
}

// parsePure: `(r *T) name(a int, b uint) bool = expr`  or `name(a int) int = expr`
func parsePure(s string) (*PureFunc, error) {
	i := indexTopEq(s)
	if i < 0 {
		return nil, fmt.Errorf("pure: missing '=' in %q", s)
	}
	hdr := strings.TrimSpace(strings.TrimPrefix(strings.TrimSpace(s[:i]), "func"))
	body := s[i+1:]
	fc, ptypes, rtypes, err := parseHeaderFull(hdr)
	if err != nil {
		return nil, err
	}
	pf := &PureFunc{Key: fc.Key, Recv: fc.Recv, RecvType: fc.RecvType, Src: body}
	for k, p := range fc.Params {
		pf.Params = append(pf.Params, Binder{p, ptypes[k]})
	}
	if len(rtypes) > 0 {
		pf.Result = rtypes[0]
	}
	e, err := ParseExpr(body)
	if err != nil {
		return nil, err
	}
	pf.Body = e
	return pf, nil
}

func indexTopEq(s string) int {
	d := 0
	for i := 0; i < len(s); i++ {
		switch s[i] {
		case '(', '[', '{':
			d++
		case ')', ']', '}':
			d--
		case '=':
			if d == 0 && (i+1 >= len(s) || s[i+1] != '=') && (i == 0 || (s[i-1] != '=' && s[i-1] != '!' && s[i-1] != '<' && s[i-1] != '>')) {
				return i
			}
		}
	}
	return -1
}

func parseFuncHeader(hdr string) (*FuncContract, error) {
	fc, _, _, err := parseHeaderFull(hdr)
	return fc, err
}

var qualRe = regexp.MustCompile(`^([A-Za-z_][\w/]*(?:\.[A-Za-z_]\w*)*)\.([A-Za-z_][\w$]*)\s*\(`)

func parseHeaderFull(hdr string) (*FuncContract, []string, []string, error) {
	fc := &FuncContract{Header: hdr}
	src := strings.ReplaceAll(hdr, "$", "_DOLLAR_")
	qual := ""
	if !strings.HasPrefix(strings.TrimSpace(src), "(") {
		if m := qualRe.FindStringSubmatch(src); m != nil {
			qual = m[1]
			src = src[len(m[1])+1:]
		}
	}
	// ghost types (set[..], seq[..]) are not Go: replace by placeholder ident
	src = regexp.MustCompile(`\b(set|seq)\[[^\]]*\]`).ReplaceAllString(src, "ghost_t")
	file := "package p\nfunc " + src + " {}\n"
	hfset := token.NewFileSet()
	f, err := parser.ParseFile(hfset, "hdr.go", file, 0)
	if err != nil {
		return nil, nil, nil, fmt.Errorf("contract header %q: %v", hdr, err)
	}
	fd, ok := f.Decls[0].(*ast.FuncDecl)
	if !ok {
		return nil, nil, nil, fmt.Errorf("contract header %q: not a func", hdr)
	}
	name := strings.ReplaceAll(fd.Name.Name, "_DOLLAR_", "$")
	exprStr := func(e ast.Expr) string {
		return strings.ReplaceAll(file[hfset.Position(e.Pos()).Offset:hfset.Position(e.End()).Offset], "_DOLLAR_", "$")
	}
	if fd.Recv != nil && len(fd.Recv.List) == 1 {
		r := fd.Recv.List[0]
		if len(r.Names) > 0 {
			fc.Recv = r.Names[0].Name
		}
		ts := exprStr(r.Type)
		ts = strings.TrimPrefix(ts, "*")
		fc.RecvType = ts
		fc.Key = ts + "." + name
	} else {
		fc.Key = name
		if qual != "" {
			fc.Key = qual + "." + name
		}
	}
	var ptypes, rtypes []string
	if fd.Type.Params != nil {
		for _, fl := range fd.Type.Params.List {
			if len(fl.Names) == 0 {
				fc.Params = append(fc.Params, "_")
				ptypes = append(ptypes, exprStr(fl.Type))
			}
			for _, n := range fl.Names {
				fc.Params = append(fc.Params, n.Name)
				ptypes = append(ptypes, exprStr(fl.Type))
			}
		}
	}
	if fd.Type.Results != nil {
		for _, fl := range fd.Type.Results.List {
			if len(fl.Names) == 0 {
				fc.Results = append(fc.Results, "_")
				rtypes = append(rtypes, exprStr(fl.Type))
			}
			for _, n := range fl.Names {
				fc.Results = append(fc.Results, n.Name)
				rtypes = append(rtypes, exprStr(fl.Type))
			}
		}
	}
	return fc, ptypes, rtypes, nil
}

func sortedKeys[V any](m map[string]V) []string {
	var ks []string
	for k := range m {
		ks = append(ks, k)
	}
	sort.Strings(ks)
	return ks
}
