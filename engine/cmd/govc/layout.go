package main

// Value layout: how Go types are flattened into SMT components, heap keys, sorts.

import (
	"fmt"
	"go/types"
	"math/big"
	"strings"
)

type bigInt = big.Int

// Arithmetic mode of a function.
type Mode int

const (
	ModeInt Mode = iota // mathematical integers with exact wrap
	ModeBV              // bit-vectors of the Go width
)

// Ghost-only types (not Go types).
type GhostMap struct{ K, V types.Type }
type GhostSet struct{ E types.Type }

func (g *GhostMap) Underlying() types.Type { return g }
func (g *GhostMap) String() string        { return "ghostmap[" + typeStr(g.K) + "]" + typeStr(g.V) }
func (g *GhostSet) Underlying() types.Type { return g }
func (g *GhostSet) String() string        { return "ghostset[" + typeStr(g.E) + "]" }

// MathInt is the unbounded integer of specifications.
var MathInt types.Type = types.Typ[types.UntypedInt]
var BoolT types.Type = types.Typ[types.Bool]

type comp struct {
	suffix string     // "" or ".f#len" etc.
	typ    types.Type // scalar go type of this component (for ranges); nil = ref/int
	sort   string
	kind   string // "int","bool","str","real","ref","tag","bits"
}

func typeStr(t types.Type) string {
	if t == nil {
		return "?"
	}
	return types.TypeString(t, func(p *types.Package) string { return p.Name() })
}

func isOpaqueSync(t types.Type) bool {
	if n, ok := t.(*types.Named); ok && n.Obj().Pkg() != nil {
		p := n.Obj().Pkg().Path()
		if p == "sync" || p == "sync/atomic" {
			return true
		}
	}
	return false
}

func isTime(t types.Type) bool {
	if n, ok := t.(*types.Named); ok && n.Obj().Pkg() != nil {
		return n.Obj().Pkg().Path() == "time" && n.Obj().Name() == "Time"
	}
	return false
}

func intInfo(t types.Type) (bits int, signed bool, ok bool) {
	b, isb := t.Underlying().(*types.Basic)
	if !isb {
		return 0, false, false
	}
	switch b.Kind() {
	case types.Int8:
		return 8, true, true
	case types.Int16:
		return 16, true, true
	case types.Int32:
		return 32, true, true
	case types.Int64, types.Int:
		return 64, true, true
	case types.Uint8:
		return 8, false, true
	case types.Uint16:
		return 16, false, true
	case types.Uint32:
		return 32, false, true
	case types.Uint64, types.Uint, types.Uintptr:
		return 64, false, true
	case types.UntypedInt, types.UntypedRune:
		return 0, true, true // mathematical
	}
	return 0, false, false
}

func pow2(n int) *big.Int { return new(big.Int).Lsh(big.NewInt(1), uint(n)) }

func (m Mode) intSort(t types.Type) string {
	if m == ModeBV {
		bits, _, ok := intInfo(t)
		if ok && bits > 0 {
			return fmt.Sprintf("(_ BitVec %d)", bits)
		}
	}
	return "Int"
}

// comps returns the flattened components of a Go type.
func (m Mode) comps(t types.Type) []comp {
	if t == nil {
		return []comp{{"", nil, "Int", "int"}}
	}
	switch g := t.(type) {
	case *GhostMap:
		kc := m.comps(g.K)
		vc := m.comps(g.V)
		if len(kc) != 1 || len(vc) != 1 {
			panic("ghost map with composite key/value: " + g.String())
		}
		return []comp{{"", t, "(Array " + kc[0].sort + " " + vc[0].sort + ")", "gmap"}}
	case *GhostSet:
		kc := m.comps(g.E)
		if len(kc) != 1 {
			panic("ghost set with composite elem")
		}
		return []comp{{"", t, "(Array " + kc[0].sort + " Bool)", "gset"}}
	}
	if isOpaqueSync(t) {
		return nil
	}
	if isTime(t) {
		return []comp{{"", t, "Int", "time"}}
	}
	switch u := t.Underlying().(type) {
	case *types.Basic:
		switch {
		case u.Info()&types.IsBoolean != 0:
			return []comp{{"", t, "Bool", "bool"}}
		case u.Info()&types.IsString != 0:
			return []comp{{"", t, "Str", "str"}}
		case u.Info()&types.IsFloat != 0:
			return []comp{{"", t, "Real", "real"}}
		case u.Info()&types.IsInteger != 0:
			return []comp{{"", t, m.intSort(t), "int"}}
		case u.Kind() == types.UnsafePointer:
			return []comp{{"", t, "Int", "ref"}}
		case u.Kind() == types.UntypedNil:
			return []comp{{"", t, "Int", "ref"}}
		}
	case *types.Pointer, *types.Map, *types.Chan, *types.Signature:
		return []comp{{"", t, "Int", "ref"}}
	case *types.Slice:
		ls := m.lenSort()
		return []comp{{"!base", t, "Int", "ref"}, {"!off", t, ls, "len"}, {"!len", t, ls, "len"}, {"!cap", t, ls, "len"}}
	case *types.Interface:
		return []comp{{"!tag", t, "Int", "tag"}, {"!data", t, "Int", "ref"}}
	case *types.Struct:
		var out []comp
		for i := 0; i < u.NumFields(); i++ {
			f := u.Field(i)
			for _, c := range m.comps(f.Type()) {
				c.suffix = "." + f.Name() + c.suffix
				out = append(out, c)
			}
		}
		return out
	case *types.Tuple:
		var out []comp
		for i := 0; i < u.Len(); i++ {
			for _, c := range m.comps(u.At(i).Type()) {
				c.suffix = fmt.Sprintf("$%d%s", i, c.suffix)
				out = append(out, c)
			}
		}
		return out
	case *types.Array:
		ec := m.comps(u.Elem())
		if len(ec) == 1 {
			return []comp{{"!arr", t, "(Array " + m.lenSort() + " " + ec[0].sort + ")", "arr"}}
		}
	}
	panic("unsupported type in layout: " + typeStr(t))
}

func (m Mode) lenSort() string {
	if m == ModeBV {
		return "(_ BitVec 64)"
	}
	return "Int"
}

// numeral of the given sort
func (m Mode) num(v *big.Int, sort string) string {
	if strings.HasPrefix(sort, "(_ BitVec") {
		var w int
		fmt.Sscanf(sort, "(_ BitVec %d)", &w)
		x := new(big.Int).Mod(v, pow2(w))
		return fmt.Sprintf("(_ bv%s %d)", x.String(), w)
	}
	if sort == "Real" {
		if v.Sign() < 0 {
			return "(- " + new(big.Int).Neg(v).String() + ".0)"
		}
		return v.String() + ".0"
	}
	if v.Sign() < 0 {
		return "(- " + new(big.Int).Neg(v).String() + ")"
	}
	return v.String()
}

func numI(i int64) string {
	if i < 0 {
		return fmt.Sprintf("(- %d)", -i)
	}
	return fmt.Sprint(i)
}

// zero value components
func (m Mode) zero(t types.Type) []string {
	var out []string
	for _, c := range m.comps(t) {
		out = append(out, m.zeroOfComp(c))
	}
	return out
}

func (m Mode) zeroOfComp(c comp) string {
	switch c.kind {
	case "bool":
		return "false"
	case "str":
		return "str$empty"
	case "real":
		return "0.0"
	case "gset":
		return "((as const " + c.sort + ") false)"
	case "gmap", "arr":
		// element zero: derive from sort's value part
		return "(" + "as-zero " + c.sort + ")" // replaced by caller if needed
	}
	return m.num(big.NewInt(0), c.sort)
}

// heap key helpers
func structKey(named types.Type) string {
	// strip pointer
	if p, ok := named.(*types.Pointer); ok {
		named = p.Elem()
	}
	return typeStr(named)
}

func sanitize(s string) string {
	r := strings.NewReplacer(" ", "", "*", "ptr_", "[", "_", "]", "_", "(", "_", ")", "_", ",", "_", "{", "_", "}", "_", "/", "_", ";", "_", "\"", "_")
	return r.Replace(s)
}
