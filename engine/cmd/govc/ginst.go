package main

// Ground instantiation phase: quantified hypotheses are instantiated at ground terms that match their
// patterns (syntactically, after select-over-store saturation), the goal's universal quantifiers are
// skolemised, and the resulting quantifier-free query is given to the solvers.  Instances of hypotheses
// are consequences of them, so `unsat` of the instantiated query is `unsat` of the original one.

import (
	"sort"
	"strings"
)

type sx_ struct {
	atom string
	list []*sx_
	str  string // cached rendering
}

func parseSx(s string) *sx_ {
	t, _ := parseSxAt(s, 0)
	return t
}

func parseSxAt(s string, i int) (*sx_, int) {
	for i < len(s) && (s[i] == ' ' || s[i] == '\n' || s[i] == '\t') {
		i++
	}
	if i >= len(s) {
		return &sx_{atom: ""}, i
	}
	if s[i] == '(' {
		i++
		n := &sx_{}
		for {
			for i < len(s) && (s[i] == ' ' || s[i] == '\n' || s[i] == '\t') {
				i++
			}
			if i >= len(s) {
				return n, i
			}
			if s[i] == ')' {
				return n, i + 1
			}
			var c *sx_
			c, i = parseSxAt(s, i)
			n.list = append(n.list, c)
		}
	}
	j := i
	for j < len(s) && s[j] != ' ' && s[j] != '(' && s[j] != ')' && s[j] != '\n' && s[j] != '\t' {
		j++
	}
	return &sx_{atom: s[i:j]}, j
}

func (t *sx_) String() string {
	if t.str != "" {
		return t.str
	}
	if t.list == nil && t.atom != "" {
		t.str = t.atom
		return t.str
	}
	var sb strings.Builder
	sb.WriteByte('(')
	for i, c := range t.list {
		if i > 0 {
			sb.WriteByte(' ')
		}
		sb.WriteString(c.String())
	}
	sb.WriteByte(')')
	t.str = sb.String()
	return t.str
}

func (t *sx_) isAtom() bool { return t.list == nil }
func (t *sx_) head() string {
	if t.isAtom() || len(t.list) == 0 {
		return ""
	}
	return t.list[0].String()
}

func sxSubst(t *sx_, env map[string]*sx_) *sx_ {
	if t.isAtom() {
		if v, ok := env[t.atom]; ok {
			return v
		}
		return t
	}
	n := &sx_{list: make([]*sx_, len(t.list))}
	changed := false
	for i, c := range t.list {
		n.list[i] = sxSubst(c, env)
		if n.list[i] != c {
			changed = true
		}
	}
	if !changed {
		return t
	}
	return n
}

func sxMatch(pat, term *sx_, vars map[string]bool, env map[string]*sx_) bool {
	if pat.isAtom() {
		if vars[pat.atom] {
			if b, ok := env[pat.atom]; ok {
				return b.String() == term.String()
			}
			env[pat.atom] = term
			return true
		}
		return term.isAtom() && pat.atom == term.atom
	}
	if term.isAtom() || len(term.list) != len(pat.list) {
		return false
	}
	for i := range pat.list {
		if !sxMatch(pat.list[i], term.list[i], vars, env) {
			return false
		}
	}
	return true
}

func sxContainsVar(t *sx_, vars map[string]bool) bool {
	if t.isAtom() {
		return vars[t.atom]
	}
	for _, c := range t.list {
		if sxContainsVar(c, vars) {
			return true
		}
	}
	return false
}

func sxContainsAll(t *sx_, vars map[string]bool) bool {
	seen := map[string]bool{}
	var walk func(x *sx_)
	walk = func(x *sx_) {
		if x.isAtom() {
			if vars[x.atom] {
				seen[x.atom] = true
			}
			return
		}
		for _, c := range x.list {
			walk(c)
		}
	}
	walk(t)
	return len(seen) == len(vars)
}

type qhyp struct {
	vars  []string
	sorts []string
	body  *sx_
	pats  [][]*sx_
	done  map[string]bool
}

type ginstResult struct {
	text      string
	instances int
	rounds    int
	skolems   int
}

const ginstMaxTerms = 6000
const ginstMaxInstances = 1500

// buildGinst returns the instantiated quantifier-free(ish) query text, or "" when there is nothing to instantiate.
func (q *Query) buildGinst(rounds int) *ginstResult {
	fx := q.fx
	var ground []*sx_
	var quants []*qhyp
	var skDecls []string
	nsk := 0

	var addHyp func(t *sx_)
	addHyp = func(t *sx_) {
		switch t.head() {
		case "and":
			for _, c := range t.list[1:] {
				addHyp(c)
			}
			return
		case "=>":
			// (=> g (and A (forall x. B)))  ==  (=> g A) and (forall x. (=> g B)): hoist universals out of consequents
			if len(t.list) == 3 {
				cons := t.list[2]
				if cons.head() == "and" {
					for _, c := range cons.list[1:] {
						addHyp(&sx_{list: []*sx_{t.list[0], t.list[1], c}})
					}
					return
				}
				if cons.head() == "forall" && len(cons.list) == 3 {
					body := cons.list[2]
					var pats []*sx_
					if body.head() == "!" {
						pats = body.list[2:]
						body = body.list[1]
					}
					nb := &sx_{list: []*sx_{t.list[0], t.list[1], body}}
					if len(pats) > 0 {
						nb = &sx_{list: append([]*sx_{{atom: "!"}, nb}, pats...)}
					}
					addHyp(&sx_{list: []*sx_{cons.list[0], cons.list[1], nb}})
					return
				}
			}
		case "forall":
			qh := &qhyp{done: map[string]bool{}}
			for _, b := range t.list[1].list {
				qh.vars = append(qh.vars, b.list[0].String())
				qh.sorts = append(qh.sorts, b.list[1].String())
			}
			body := t.list[2]
			if body.head() == "!" {
				for i := 2; i+1 < len(body.list); i += 2 {
					if body.list[i].String() == ":pattern" {
						qh.pats = append(qh.pats, body.list[i+1].list)
					}
				}
				body = body.list[1]
			}
			qh.body = body
			quants = append(quants, qh)
			return
		}
		ground = append(ground, t)
	}
	// allocation / typing axioms of the preamble are part of smt(); take hypotheses from the full text
	full := q.smtOpt(false, false)
	var head []string
	var asserts []*sx_
	for _, line := range strings.Split(full, "\n") {
		switch {
		case strings.HasPrefix(line, "(assert "):
			t := parseSx(line)
			asserts = append(asserts, t.list[1])
		case strings.HasPrefix(line, "(check-sat"), strings.HasPrefix(line, "(get-model"), line == "":
		default:
			head = append(head, line)
		}
	}
	if len(asserts) == 0 {
		return nil
	}
	goal := asserts[len(asserts)-1] // (not G)
	for _, a := range asserts[:len(asserts)-1] {
		addHyp(a)
	}
	// skolemise positive universal quantifiers of G
	var pos func(t *sx_) *sx_
	pos = func(t *sx_) *sx_ {
		switch t.head() {
		case "forall":
			env := map[string]*sx_{}
			for _, b := range t.list[1].list {
				nsk++
				name := "gsk!" + itoa(nsk)
				skDecls = append(skDecls, "(declare-const "+name+" "+b.list[1].String()+")")
				env[b.list[0].String()] = &sx_{atom: name}
			}
			body := t.list[2]
			if body.head() == "!" {
				body = body.list[1]
			}
			return pos(sxSubst(body, env))
		case "and":
			n := &sx_{list: []*sx_{t.list[0]}}
			for _, c := range t.list[1:] {
				n.list = append(n.list, pos(c))
			}
			return n
		case "=>":
			if len(t.list) == 3 {
				return &sx_{list: []*sx_{t.list[0], t.list[1], pos(t.list[2])}}
			}
		}
		return t
	}
	if goal.head() == "not" && len(goal.list) == 2 {
		goal = &sx_{list: []*sx_{goal.list[0], pos(goal.list[1])}}
	}
	ground = append(ground, goal)
	if len(quants) == 0 && nsk == 0 {
		return nil
	}
	autoPatterns(quants)
	// definitions name = (store ...)
	defs := map[string][]*sx_{}
	var findDefs func(t *sx_)
	findDefs = func(t *sx_) {
		if t.isAtom() {
			return
		}
		if t.head() == "=" && len(t.list) == 3 && t.list[2].head() == "store" {
			defs[t.list[1].String()] = append(defs[t.list[1].String()], t.list[2])
		}
		switch t.head() {
		case "=>", "and", "or", "not", "ite":
			for _, c := range t.list[1:] {
				findDefs(c)
			}
		}
	}
	total := 0
	r := 0
	for ; r < rounds; r++ {
		for _, g := range ground {
			findDefs(g)
		}
		// term universe
		terms := map[string]*sx_{}
		var collect func(t *sx_)
		collect = func(t *sx_) {
			if t.isAtom() || len(terms) > ginstMaxTerms {
				return
			}
			h := t.head()
			if h == "forall" || h == "exists" {
				return
			}
			if h == "select" || strings.HasPrefix(h, "pf$") || strings.HasPrefix(h, "sprintf$") || strings.HasPrefix(h, "uf$") {
				if _, ok := terms[t.String()]; !ok {
					terms[t.String()] = t
				}
			}
			for _, c := range t.list {
				collect(c)
			}
		}
		for _, g := range ground {
			collect(g)
		}
		// saturation: select over store (syntactic and through definitions)
		work := make([]*sx_, 0, len(terms))
		for _, t := range terms {
			work = append(work, t)
		}
		sort.Slice(work, func(i, j int) bool { return work[i].String() < work[j].String() })
		storesOf := func(a *sx_) []*sx_ {
			var out []*sx_
			if a.head() == "store" {
				out = append(out, a)
			}
			out = append(out, defs[a.String()]...)
			// (select N k) where N := store(B, k, v): the inner value v
			if a.head() == "select" && len(a.list) == 3 {
				for _, st := range append(defs[a.list[1].String()], func() []*sx_ {
					if a.list[1].head() == "store" {
						return []*sx_{a.list[1]}
					}
					return nil
				}()...) {
					if len(st.list) == 4 && st.list[2].String() == a.list[2].String() {
						v := st.list[3]
						if v.head() == "store" {
							out = append(out, v)
						}
						out = append(out, defs[v.String()]...)
					}
				}
			}
			return out
		}
		// parents[c] = terms that have c as a direct argument (variants of c give variants of the parent)
		parents := map[string][]*sx_{}
		regParents := func(t *sx_) {
			if t.isAtom() {
				return
			}
			for _, c := range t.list[1:] {
				if !c.isAtom() {
					parents[c.String()] = append(parents[c.String()], t)
				}
			}
		}
		for _, t := range work {
			regParents(t)
		}
		addTerm := func(nt *sx_) {
			if nt.isAtom() {
				return
			}
			if _, ok := terms[nt.String()]; !ok {
				terms[nt.String()] = nt
				regParents(nt)
				work = append(work, nt)
			}
		}
		var propagate func(t, alt *sx_, depth int)
		propagate = func(t, alt *sx_, depth int) {
			if depth > 3 || len(terms) >= ginstMaxTerms {
				return
			}
			ts := t.String()
			for _, par := range parents[ts] {
				np := &sx_{list: make([]*sx_, len(par.list))}
				copy(np.list, par.list)
				for i, c := range par.list {
					if i > 0 && c.String() == ts {
						np.list[i] = alt
					}
				}
				if _, ok := terms[np.String()]; ok {
					continue
				}
				addTerm(np)
				propagate(par, np, depth+1)
			}
		}
		for len(work) > 0 && len(terms) < ginstMaxTerms {
			t := work[len(work)-1]
			work = work[:len(work)-1]
			if t.head() != "select" || len(t.list) != 3 {
				continue
			}
			for _, st := range storesOf(t.list[1]) {
				if len(st.list) != 4 {
					continue
				}
				nt := &sx_{list: []*sx_{t.list[0], st.list[1], t.list[2]}}
				if _, ok := terms[nt.String()]; !ok {
					addTerm(nt)
					propagate(t, nt, 0)
				}
				if st.list[2].String() == t.list[2].String() {
					// the stored value stands for t
					addTerm(st.list[3])
					propagate(t, st.list[3], 0)
				}
			}
		}
		keys := make([]string, 0, len(terms))
		for k := range terms {
			keys = append(keys, k)
		}
		sort.Strings(keys)
		newInst := 0
		for _, qh := range quants {
			vars := map[string]bool{}
			for _, v := range qh.vars {
				vars[v] = true
			}
			for _, pat := range qh.pats {
				// multi-patterns: join matches of each pattern term
				envs := []map[string]*sx_{{}}
				for _, pt := range pat {
					var next []map[string]*sx_
					for _, env := range envs {
						for _, k := range keys {
							e2 := map[string]*sx_{}
							for a, b := range env {
								e2[a] = b
							}
							if sxMatch(pt, terms[k], vars, e2) {
								next = append(next, e2)
								if len(next) > 4000 {
									break
								}
							}
						}
					}
					envs = next
				}
				for _, env := range envs {
					if len(env) != len(qh.vars) {
						continue
					}
					var sig []string
					for _, v := range qh.vars {
						sig = append(sig, env[v].String())
					}
					key := strings.Join(sig, "|")
					if qh.done[key] {
						continue
					}
					qh.done[key] = true
					nq := len(quants)
					addHyp(sxSubst(qh.body, env))
					if len(quants) > nq {
						// nested universals of the instance became new quantified hypotheses: give them patterns too
						autoPatterns(quants[nq:])
					}
					newInst++
					total++
					if total > ginstMaxInstances {
						break
					}
				}
			}
		}
		if newInst == 0 || total > ginstMaxInstances {
			break
		}
	}
	var sb strings.Builder
	for _, h := range head {
		sb.WriteString(h + "\n")
	}
	for _, d := range skDecls {
		sb.WriteString(d + "\n")
	}
	for _, g := range ground {
		sb.WriteString("(assert " + g.String() + ")\n")
	}
	sb.WriteString("(check-sat)\n")
	_ = fx
	return &ginstResult{text: sb.String(), instances: total, rounds: r + 1, skolems: nsk}
}

func itoa(i int) string {
	if i == 0 {
		return "0"
	}
	var b []byte
	for i > 0 {
		b = append([]byte{byte('0' + i%10)}, b...)
		i /= 10
	}
	return string(b)
}

// autoPatterns gives quantifiers without explicit patterns the smallest select / UF terms that mention all bound variables.
func autoPatterns(quants []*qhyp) {
	for _, qh := range quants {
		if len(qh.pats) > 0 {
			continue
		}
		vars := map[string]bool{}
		for _, v := range qh.vars {
			vars[v] = true
		}
		seen := map[string]bool{}
		var walk func(t *sx_, underQ bool)
		walk = func(t *sx_, underQ bool) {
			if t.isAtom() {
				return
			}
			h := t.head()
			if h == "forall" || h == "exists" {
				return
			}
			if (h == "select" || strings.HasPrefix(h, "pf$") || strings.HasPrefix(h, "sprintf$") || strings.HasPrefix(h, "uf$")) && sxContainsAll(t, vars) {
				// prefer the smallest such terms: descend first
				before := len(seen)
				for _, c := range t.list[1:] {
					walk(c, underQ)
				}
				if len(seen) == before && !seen[t.String()] {
					seen[t.String()] = true
					qh.pats = append(qh.pats, []*sx_{t})
				}
				return
			}
			for _, c := range t.list[1:] {
				walk(c, underQ)
			}
		}
		walk(qh.body, false)
	}
}

func ginstRounds() int { return envInt("GOVC_GINST_ROUNDS", 3) }
