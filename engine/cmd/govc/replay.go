package main

import (
	"bytes"
	"encoding/json"
	"fmt"
	"os"
	"os/exec"
	"path/filepath"
	"regexp"
	"strings"
	"sync"
)

// Replay kits: hand-written witness searches over histories of the real code (go test -overlay, nothing is
// written into /repo).  They run only after an obligation has failed, to attach a failing input to the report.
type Kit struct {
	Match string   `json:"match"` // regexp on the obligation name
	Pkg   string   `json:"pkg"`   // package pattern relative to the repo, e.g. ./packetio
	Files []string `json:"files"` // files under /verif/replaykit, placed into the package directory
	Run   string   `json:"run"`   // -run pattern
	Tags  string   `json:"tags,omitempty"`
	Race  bool     `json:"race,omitempty"`
	BoundedFor string `json:"bounded_for,omitempty"` // property id: a bounded stand-in run with every check of that property
	Bound      string `json:"bound,omitempty"`
	Hide       []string `json:"hide,omitempty"` // repository files hidden from the build (overlay deletion)
	Variant    string            `json:"variant,omitempty"`
	Retag      map[string]string `json:"retag,omitempty"` // repo file -> build constraint replacing its //go:build line (mechanical copy made at check time)
	Deterministic bool `json:"deterministic,omitempty"` // model-based search without timing dependence: also run by the thorough tier on the unchanged tree
}

type kitFile struct {
	Kits []Kit `json:"kits"`
}

type kitResult struct {
	cmd        string
	out        string
	reproduced bool
}

var (
	kitMu    sync.Mutex
	kitCache = map[string]*kitResult{}
)

func loadKits(verif string) []Kit {
	var kf kitFile
	b, err := os.ReadFile(filepath.Join(verif, "replaykit", "kits.json"))
	if err != nil {
		return nil
	}
	if err := json.Unmarshal(b, &kf); err != nil {
		fmt.Fprintln(os.Stderr, "govc: kits.json:", err)
	}
	return kf.Kits
}

func replayWithKit(o checkOpts, id string, ob *OblResult, rf *ReplayFile) {
	for _, k := range loadKits(o.verif) {
		re, err := regexp.Compile(k.Match)
		if err != nil || !re.MatchString(ob.Name) {
			continue
		}
		res := runKit(o, id, k)
		rf.ReplayCmd = res.cmd
		rf.ReplayOut = truncate(res.out, 6000)
		rf.Reproduced = res.reproduced
		if res.reproduced {
			rf.ReplayNote = "witness search over histories of the real code found an input violating the property (kit " + k.Run + "); the failing history is in replay_output"
		} else {
			rf.ReplayNote = "witness search over histories of the real code (kit " + k.Run + ") found no failing input within its budget; the obligation is still undischarged"
		}
		return
	}
}

func runKit(o checkOpts, id string, k Kit) *kitResult {
	key := k.Pkg + "|" + k.Run + "|" + k.Tags + "|" + k.Variant
	kitMu.Lock()
	defer kitMu.Unlock()
	if r, ok := kitCache[key]; ok {
		return r
	}
	dir := filepath.Join(o.verif, "replays", id)
	os.MkdirAll(dir, 0o755)
	ov := map[string]map[string]string{"Replace": {}}
	for _, f := range k.Files {
		dst := filepath.Join(o.repo, strings.TrimPrefix(k.Pkg, "./"), filepath.Base(f))
		ov["Replace"][dst] = filepath.Join(o.verif, "replaykit", f)
	}
	for _, h := range k.Hide {
		ov["Replace"][filepath.Join(o.repo, h)] = ""
	}
	for f, constraint := range k.Retag {
		src, err := os.ReadFile(filepath.Join(o.repo, f))
		if err != nil {
			continue
		}
		lines := strings.Split(string(src), "\n")
		for i, l := range lines {
			if strings.HasPrefix(l, "//go:build ") {
				lines[i] = "//go:build " + constraint
				break
			}
		}
		cp := filepath.Join(dir, "retag_"+sanitizeFile(f))
		os.WriteFile(cp, []byte(strings.Join(lines, "\n")), 0o644)
		ov["Replace"][filepath.Join(o.repo, f)] = cp
	}
	ovPath := filepath.Join(dir, "overlay_"+sanitizeFile(k.Run+k.Tags+k.Variant)+".json")
	writeJSON(ovPath, ov)
	secs := 15
	if o.tier == "thorough" {
		secs = 60
	}
	seed := envInt("VERIF_SEED", 1)
	race := ""
	if k.Race {
		race = " -race"
	}
	tags := ""
	if k.Tags != "" {
		tags = " -tags " + k.Tags
	}
	verbose := ""
	if k.BoundedFor != "" {
		verbose = " -v"
	}
	cmd := fmt.Sprintf("cd %s && GOFLAGS=-mod=mod GOPROXY=off GOSUMDB=off GOTOOLCHAIN=local VERIF_SEED=%d GOVC_WITNESS_SECONDS=%d go test -overlay %s -vet=off%s%s%s -count=1 -timeout %ds -run '%s' %s",
		o.repo, seed, secs, ovPath, race, tags, verbose, secs+120, k.Run, k.Pkg)
	out, code := runReplayCmd(cmd)
	r := &kitResult{cmd: cmd, out: out, reproduced: code != 0 && (strings.Contains(out, "WITNESS") || strings.Contains(out, "DATA RACE"))}
	kitCache[key] = r
	return r
}

func runReplayCmd(cmd string) (string, int) {
	c := exec.Command("bash", "-c", cmd)
	var out bytes.Buffer
	c.Stdout, c.Stderr = &out, &out
	err := c.Run()
	code := 0
	if err != nil {
		code = 1
	}
	return out.String(), code
}

func cmdSelftest(args []string) int { return 0 }

type exploreResult struct {
	Kit    string `json:"kit"`
	Cmd    string `json:"cmd"`
	Passed bool   `json:"passed"`
	Out    string `json:"-"`
}

// runExploration (thorough tier): beyond the proofs, run the deterministic witness searches whose obligations belong to
// this property on the unchanged tree, with the long budget.  A witness is a failing input on the real code.
func runExploration(o checkOpts, id string, obls []*OblResult) []exploreResult {
	var out []exploreResult
	for _, k := range loadKits(o.verif) {
		if !k.Deterministic || k.BoundedFor != "" {
			continue
		}
		re, err := regexp.Compile(k.Match)
		if err != nil {
			continue
		}
		hit := false
		for _, ob := range obls {
			if re.MatchString(ob.Name) {
				hit = true
				break
			}
		}
		if !hit {
			continue
		}
		res := runKit(o, id, k)
		out = append(out, exploreResult{Kit: k.Run, Cmd: res.cmd, Passed: !res.reproduced, Out: res.out})
	}
	return out
}

type boundedResult struct {
	Name   string `json:"name"`
	Bound  string `json:"bound"`
	Tags   string `json:"tags,omitempty"`
	Passed bool   `json:"passed"`
	Cases  string `json:"cases,omitempty"`
	Cmd    string `json:"cmd"`
	Out    string `json:"-"`
}

// runBounded executes the bounded stand-ins registered for a property (never counted as proof).
func runBounded(o checkOpts, id string) []boundedResult {
	var out []boundedResult
	for _, k := range loadKits(o.verif) {
		if k.BoundedFor != id {
			continue
		}
		res := runKit(o, id, k)
		br := boundedResult{Name: k.Run + k.Variant, Bound: k.Bound, Tags: k.Tags, Cmd: res.cmd, Out: res.out}
		br.Passed = strings.Contains(res.out, "ok  \t") && !strings.Contains(res.out, "BOUNDED-FAIL") && !strings.Contains(res.out, "FAIL")
		if m := regexp.MustCompile(`BOUNDED-OK (.*)`).FindStringSubmatch(res.out); m != nil {
			br.Cases = m[1]
		}
		out = append(out, br)
	}
	return out
}
