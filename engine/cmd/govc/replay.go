package main

import (
	"bytes"
	"os/exec"
)

// replayWithKit: see replaykit.go (filled in later)
func replayWithKit(o checkOpts, id string, ob *OblResult, rf *ReplayFile) {}

func runReplayCmd(cmd string) (string, int) {
	c := exec.Command("bash", "-c", cmd)
	var out bytes.Buffer
	c.Stdout, c.Stderr = &out, &out
	err := c.Run()
	code := 0
	if err != nil {
		code = 1
	}
	return out.String(), code
}

func cmdSelftest(args []string) int { return 0 }
