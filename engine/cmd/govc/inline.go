package main

// Inlining of module-local callees that have no contract (helpers introduced by refactorings, small
// unexported functions).  A callee under contract is always used through its contract; inlining is the
// fallback that keeps a changed tree decidable instead of failing closed.  Listed in the evidence.

import (
	"go/types"
	"strings"

	"golang.org/x/tools/go/ssa"
)

type inlFrame struct {
	fn      *ssa.Function
	defers  []deferred // the caller's pending defers
	prev    *ssa.BasicBlock
	collect *[]inlRet
}

type inlRet struct {
	st  *State
	res []Val
}

const maxInlineDepth = 4

func (fx *FuncCtx) inlinable(st *State, cc *ssa.CallCommon, fnv *Val) *ssa.Function {
	if cc.IsInvoke() || isLogCall(cc) {
		return nil
	}
	if _, ok := cc.Value.(*ssa.Builtin); ok {
		return nil
	}
	callee := cc.StaticCallee()
	if callee == nil && fnv != nil && fnv.Fn != nil {
		callee = fnv.Fn
	}
	if callee == nil {
		if v, ok := st.regs[cc.Value]; ok && v.Fn != nil {
			callee = v.Fn
		}
	}
	if callee == nil || callee.Blocks == nil {
		return nil
	}
	pkg := callee.Pkg
	if pkg == nil && callee.Parent() != nil {
		pkg = callee.Parent().Pkg
	}
	if pkg == nil || !strings.HasPrefix(pkg.Pkg.Path(), modPath) {
		return nil
	}
	switch callee.String() {
	case "(*sync.Mutex).Lock":
		return nil
	}
	if fx.eng.contractOf(callee) != nil || fx.eng.externContract(callee) != nil {
		return nil
	}
	if len(st.frames) >= maxInlineDepth {
		fx.failf("inlining depth exceeded at %s (give it a contract)", callee.String())
	}
	for _, f := range st.frames {
		if f.fn == callee {
			fx.failf("recursive call of %s without contract", callee.String())
		}
	}
	if callee == fx.fn {
		fx.failf("recursive call of %s without contract", callee.String())
	}
	return callee
}

// inlineCall runs the callee body on st (forking as needed); every path that reaches a return continues the
// caller after `at` (or at `at` again when rerun is set, used by RunDefers).
func (fx *FuncCtx) inlineCall(st *State, at ssa.Instruction, callee *ssa.Function, fnv Val, args []Val, rerun bool) {
	if fx.inlined == nil {
		fx.inlined = map[string]bool{}
	}
	fx.inlined[callee.String()] = true
	fx.analyseLoopsOf(callee)
	var rets []inlRet
	fr := &inlFrame{fn: callee, defers: st.defers, prev: st.prev, collect: &rets}
	cs := st.clone()
	cs.frames = append(cs.frames, fr)
	cs.defers = nil
	for i, p := range callee.Params {
		if i < len(args) {
			v := args[i]
			cs.regs[p] = fx.adapt(v, p.Type())
		}
	}
	for i, fv := range callee.FreeVars {
		if i < len(fnv.Bind) {
			b := fnv.Bind[i]
			cs.regs[fv] = b
			if b.L != nil && b.L.Kind == LocCell {
				if cell, ok := st.cells[b.L.Cell]; ok {
					cs.cells[b.L.Cell] = cell
				}
			}
		} else {
			fx.failf("closure %s called without known bindings", callee.String())
		}
	}
	fx.run(cs, callee.Blocks[0], nil)
	// continue the caller on every returning path
	var alts []*State
	for _, r := range rets {
		s := r.st
		if c, ok := at.(*ssa.Call); ok && !rerun {
			switch len(r.res) {
			case 0:
			case 1:
				s.regs[c] = r.res[0]
			default:
				s.regs[c] = Val{T: c.Type(), Tup: r.res}
			}
		}
		alts = append(alts, s)
	}
	if len(alts) == 0 {
		st.dead = true
		return
	}
	if rerun {
		fx.forkAt(st, at, alts, 0)
	} else {
		fx.forkAt(st, at, alts, 1)
	}
}

// inlineReturn: a return inside an inlined callee hands the state back to the collector.
func (fx *FuncCtx) inlineReturn(st *State, in *ssa.Return) bool {
	if len(st.frames) == 0 {
		return false
	}
	fr := st.frames[len(st.frames)-1]
	if in.Parent() != fr.fn {
		return false
	}
	var res []Val
	for _, r := range in.Results {
		res = append(res, fx.val(st, r))
	}
	s := st.clone()
	s.frames = s.frames[:len(s.frames)-1]
	s.defers = append([]deferred(nil), fr.defers...)
	s.prev = fr.prev
	*fr.collect = append(*fr.collect, inlRet{s, res})
	return true
}

// forkAt continues each alternative state at instruction index (pos of `at`)+delta of at's block.
func (fx *FuncCtx) forkAt(st *State, at ssa.Instruction, alts []*State, delta int) {
	b := at.Block()
	pos := -1
	for i, x := range b.Instrs {
		if x == at {
			pos = i
		}
	}
	for _, a := range alts[1:] {
		fx.npaths++
		if fx.npaths > maxPaths {
			fx.failf("path explosion in %s", fx.key)
		}
		fx.runFrom(a, b, pos+delta)
	}
	first := alts[0]
	if delta == 0 {
		// re-execute `at` itself on the first alternative, then let the caller's loop go on
		*st = *first
		fx.exec(st, at)
		return
	}
	*st = *first
}

var _ = types.Typ
