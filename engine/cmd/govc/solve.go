package main

import (
	"bytes"
	"context"
	"crypto/sha256"
	"fmt"
	"os"
	"os/exec"
	"path/filepath"
	"regexp"
	"sort"
	"strings"
	"sync"
	"time"
)

var symRe = regexp.MustCompile(`[A-Za-z_$@!.~][A-Za-z0-9_$@!.~\-]*`)

func (q *Query) smt(withModel bool) string { return q.smtOpt(withModel, false) }

func isQuantified(h string) bool {
	return strings.Contains(h, "(forall ") || strings.Contains(h, "(exists ")
}

// smtOpt: ground=true drops every quantified hypothesis (sound for proving: fewer hypotheses)
func (q *Query) smtOpt(withModel, ground bool) string {
	fx := q.fx
	var sb strings.Builder
	hyps := q.Hyps
	if ground {
		hyps = nil
		for _, h := range q.Hyps {
			if !isQuantified(h) {
				hyps = append(hyps, h)
			}
		}
	}
	body := strings.Join(hyps, "\n") + "\n" + q.Goal
	used := map[string]bool{}
	for _, s := range symRe.FindAllString(body, -1) {
		used[s] = true
	}
	// allocation axioms for entry versions of reference-valued heap keys
	var allocAx []string
	for key, kind := range fx.refKeys {
		name := key + "@0"
		if !used[name] {
			continue
		}
		switch kind {
		case 0:
			allocAx = append(allocAx, fmt.Sprintf("(forall ((o Int)) (! (=> (<= o alloc$top@entry) (and (<= 0 (select %s o)) (<= (select %s o) alloc$top@entry))) :pattern ((select %s o))))", name, name, name))
		case 2:
			ks := fx.mapKeySort[key]
			allocAx = append(allocAx, fmt.Sprintf("(forall ((o Int) (k %s)) (! (=> (<= o alloc$top@entry) (and (<= 0 (select (select %s o) k)) (<= (select (select %s o) k) alloc$top@entry))) :pattern ((select (select %s o) k))))", ks, name, name, name))
		case 1:
			ls := fx.mode.lenSort()
			allocAx = append(allocAx, fmt.Sprintf("(forall ((o Int) (i %s)) (! (=> (<= o alloc$top@entry) (and (<= 0 (select (select %s o) i)) (<= (select (select %s o) i) alloc$top@entry))) :pattern ((select (select %s o) i))))", ls, name, name, name))
		}
		used["alloc$top@entry"] = true
	}
	// elements of integer arrays at function entry are values of their type
	for key, et := range fx.intElemKeys {
		name := key + "@0"
		if !used[name] {
			continue
		}
		rf := fx.ar.rangeFactRO(fmt.Sprintf("(select (select %s o) i)", name), et)
		allocAx = append(allocAx, fmt.Sprintf("(forall ((o Int) (i Int)) (! %s :pattern ((select (select %s o) i))))", rf, name))
	}
	// function-typed package variables set once by init to a function value: never nil
	for g := range fx.eng.funcGlobals {
		if used[g+"@0"] {
			allocAx = append(allocAx, fmt.Sprintf("(> %s@0 0)", g))
		}
	}
	// package-level error values: non-nil, pairwise distinct, allocated before entry
	var errData []string
	for g := range fx.eng.errGlobals {
		if used[g+"!tag@0"] || used[g+"!data@0"] {
			used[g+"!tag@0"], used[g+"!data@0"] = true, true
			allocAx = append(allocAx, fmt.Sprintf("(and (> %s!tag@0 0) (> %s!data@0 0) (<= %s!data@0 alloc$top@entry))", g, g, g))
			if tg := fx.eng.errGlobalTag[g]; tg != "" {
				allocAx = append(allocAx, fmt.Sprintf("(= %s!tag@0 %s)", g, tg))
			}
			errData = append(errData, g+"!data@0")
			used["alloc$top@entry"] = true
		}
	}
	sort.Strings(errData)
	if len(errData) > 1 {
		allocAx = append(allocAx, "(distinct "+strings.Join(errData, " ")+")")
	}
	sort.Strings(allocAx)
	if withModel {
		sb.WriteString("(set-option :produce-models true)\n")
	}
	sb.WriteString("(set-logic ALL)\n(declare-sort Str 0)\n")
	var names []string
	for n := range fx.decls.consts {
		if used[n] {
			names = append(names, n)
		}
	}
	sort.Strings(names)
	var strs []string
	for _, n := range names {
		fmt.Fprintf(&sb, "(declare-const %s %s)\n", n, fx.decls.consts[n])
		if strings.HasPrefix(n, "str$") && fx.decls.consts[n] == "Str" && n != "str$concat" {
			strs = append(strs, n)
		}
	}
	var fnames []string
	for n := range fx.decls.funs {
		if used[n] {
			fnames = append(fnames, n)
		}
	}
	sort.Strings(fnames)
	for _, n := range fnames {
		sb.WriteString(fx.decls.funs[n] + "\n")
	}
	if len(strs) > 1 {
		sb.WriteString("(assert (distinct " + strings.Join(strs, " ") + "))\n")
	}
	for _, a := range allocAx {
		if ground && isQuantified(a) {
			continue
		}
		sb.WriteString("(assert " + a + ")\n")
	}
	for _, h := range hyps {
		sb.WriteString("(assert " + h + ")\n")
	}
	sb.WriteString("(assert (not " + q.Goal + "))\n(check-sat)\n")
	if withModel {
		sb.WriteString("(get-model)\n")
	}
	return sb.String()
}

type solverSpec struct {
	name string
	args func(file string, timeoutS int, seed int) []string
}

var solvers = []solverSpec{
	{"z3-new", func(f string, t, seed int) []string {
		return []string{"z3-new", fmt.Sprintf("-T:%d", t), fmt.Sprintf("sat.random_seed=%d", seed), fmt.Sprintf("smt.random_seed=%d", seed), "-smt2", f}
	}},
	{"cvc5", func(f string, t, seed int) []string {
		return []string{"cvc5", "--lang=smt2", fmt.Sprintf("--tlimit=%d", t*1000), fmt.Sprintf("--seed=%d", seed), f}
	}},
	{"z3", func(f string, t, seed int) []string {
		return []string{"z3", fmt.Sprintf("-T:%d", t), fmt.Sprintf("smt.random_seed=%d", seed), "-smt2", f}
	}},
}

type solveResult struct {
	status  string
	solver  string
	seconds float64
	output  string
}

func runSolver(ctx context.Context, sp solverSpec, file string, timeoutS, seed int) solveResult {
	args := sp.args(file, timeoutS, seed)
	t0 := time.Now()
	cctx, cancel := context.WithTimeout(ctx, time.Duration(timeoutS+2)*time.Second)
	defer cancel()
	cmd := exec.CommandContext(cctx, args[0], args[1:]...)
	var out bytes.Buffer
	cmd.Stdout = &out
	cmd.Stderr = &out
	_ = cmd.Run()
	el := time.Since(t0).Seconds()
	s := out.String()
	first := ""
	for _, l := range strings.Split(s, "\n") {
		l = strings.TrimSpace(l)
		if l == "" || strings.HasPrefix(l, "WARNING") {
			continue
		}
		first = l
		break
	}
	st := "unknown"
	switch {
	case first == "unsat":
		st = "unsat"
	case first == "sat":
		st = "sat"
	case strings.Contains(first, "timeout") || cctx.Err() != nil:
		st = "timeout"
	case strings.HasPrefix(first, "(error") || strings.Contains(first, "rror"):
		st = "error"
	}
	return solveResult{st, sp.name, el, s}
}

type Solver struct {
	dir      string
	workers  int
	quickT   int
	longT    int
	seed     int
	cache    map[string]*solveResult
	mu       sync.Mutex
	perSolver map[string]*solverStat
	keep     bool
	crossCheck bool
	progress bool
	instT    int
	inflight map[string]chan struct{}
}

type solverStat struct {
	N       int
	Seconds float64
}

func (s *Solver) note(r solveResult) {
	s.mu.Lock()
	defer s.mu.Unlock()
	st := s.perSolver[r.solver]
	if st == nil {
		st = &solverStat{}
		s.perSolver[r.solver] = st
	}
	st.N++
	st.Seconds += r.seconds
}

func (s *Solver) solveAll(qs []*Query) {
	type job struct{ q *Query }
	jobs := make(chan *Query)
	var wg sync.WaitGroup
	for w := 0; w < s.workers; w++ {
		wg.Add(1)
		go func() {
			defer wg.Done()
			for q := range jobs {
				s.solveOne(q)
			}
		}()
	}
	for _, q := range qs {
		jobs <- q
	}
	close(jobs)
	wg.Wait()
}

func (s *Solver) solveOne(q *Query) {
	text := q.smt(false)
	h := fmt.Sprintf("%x", sha256.Sum256([]byte(text)))[:24]
	for {
		s.mu.Lock()
		if r, ok := s.cache[h]; ok {
			s.mu.Unlock()
			q.Status, q.Solver, q.Seconds, q.Output = r.status, r.solver+"(cached)", 0, r.output
			return
		}
		if s.inflight == nil {
			s.inflight = map[string]chan struct{}{}
		}
		if ch, busy := s.inflight[h]; busy {
			s.mu.Unlock()
			<-ch
			continue
		}
		done := make(chan struct{})
		s.inflight[h] = done
		s.mu.Unlock()
		defer func() {
			s.mu.Lock()
			if _, ok := s.cache[h]; !ok {
				s.cache[h] = &solveResult{status: q.Status, solver: q.Solver, seconds: q.Seconds, output: q.Output}
			}
			delete(s.inflight, h)
			s.mu.Unlock()
			close(done)
		}()
		break
	}
	file := filepath.Join(s.dir, h+".smt2")
	if s.keep {
		text = "; " + q.Obl + " path=" + q.Trail + "\n" + text
	}
	if err := os.WriteFile(file, []byte(text), 0o644); err != nil {
		q.Status, q.Output = "error", err.Error()
		return
	}
	if !s.keep {
		defer os.Remove(file)
	}
	// stage 0: ground query (quantified hypotheses dropped) – unsat here is unsat of the full query
	var r solveResult
	gfile := filepath.Join(s.dir, h+".g.smt2")
	if q.Canary {
		// a canary is refuted (vacuity!) already when the quantifier-free part of the hypotheses is contradictory
		_ = os.WriteFile(gfile, []byte(q.smtOpt(false, true)), 0o644)
		gr := runSolver(context.Background(), solvers[0], gfile, 3, s.seed)
		if !s.keep {
			os.Remove(gfile)
		}
		if gr.status == "unsat" {
			q.Status, q.Solver, q.Seconds, q.Output = "unsat", gr.solver + "/ground", gr.seconds, ""
			return
		}
		if q.AnyOf != "" && gr.status == "sat" {
			// reachable as far as the ground part goes: good enough for the reachability group
			q.Status, q.Solver, q.Seconds = "sat", gr.solver + "/ground", gr.seconds
			return
		}
	}
	if !q.Canary {
		_ = os.WriteFile(gfile, []byte(q.smtOpt(true, true)), 0o644)
		gr := runSolver(context.Background(), solvers[0], gfile, 2, s.seed)
		gr.solver += "/ground"
		s.note(gr)
		if !s.keep {
			os.Remove(gfile)
		}
		if gr.status == "unsat" {
			q.Status, q.Solver, q.Seconds, q.Output = gr.status, gr.solver, gr.seconds, ""
			s.mu.Lock()
			s.cache[h] = &gr
			s.mu.Unlock()
			if s.progress {
				fmt.Fprintf(os.Stderr, "  [%s %.1fs %s] %s  path=%s\n", q.Status, q.Seconds, q.Solver, q.Obl, q.Trail)
			}
			return
		}
		if gr.status == "sat" {
			q.GroundModel = gr.output
		}
	}
	// stage 0b: ground instantiation of the quantified hypotheses at matching terms, goal skolemised
	if !q.Canary {
		if gi := q.buildGinst(ginstRounds()); gi != nil && (gi.instances > 0 || gi.skolems > 0) {
			ifile := filepath.Join(s.dir, h+".i.smt2")
			_ = os.WriteFile(ifile, []byte(gi.text), 0o644)
			ctx, cancel := context.WithCancel(context.Background())
			ch := make(chan solveResult, 2)
			for _, sp := range solvers[:2] {
				sp := sp
				go func() { ch <- runSolver(ctx, sp, ifile, s.instT, s.seed) }()
			}
			var ir solveResult
			for i := 0; i < 2; i++ {
				x := <-ch
				x.solver += "/ginst"
				s.note(x)
				if x.status == "unsat" {
					ir = x
					break
				}
			}
			cancel()
			if !s.keep {
				os.Remove(ifile)
			}
			if ir.status == "unsat" {
				q.Status, q.Solver, q.Seconds, q.Output = ir.status, ir.solver, ir.seconds, ""
				s.mu.Lock()
				s.cache[h] = &ir
				s.mu.Unlock()
				if s.progress {
					fmt.Fprintf(os.Stderr, "  [%s %.1fs %s inst=%d] %s  path=%s\n", q.Status, q.Seconds, q.Solver, gi.instances, q.Obl, q.Trail)
				}
				return
			}
		}
	}
	// stage 1: the fast solver alone, short limit
	r = runSolver(context.Background(), solvers[0], file, s.quickT, s.seed)
	s.note(r)
	if r.status != "unsat" && r.status != "sat" && !q.Canary {
		// stage 2: race all three with the long limit
		ctx, cancel := context.WithCancel(context.Background())
		ch := make(chan solveResult, len(solvers))
		for _, sp := range solvers {
			sp := sp
			go func() { ch <- runSolver(ctx, sp, file, s.longT, s.seed+1) }()
		}
		var best solveResult = r
		for range solvers {
			x := <-ch
			s.note(x)
			if x.status == "unsat" || x.status == "sat" {
				best = x
				break
			}
			if best.status == "error" || best.status == "unknown" {
				if x.status == "timeout" {
					best = x
				}
			}
		}
		cancel()
		r = best
	}
	if r.status != "unsat" && !q.Canary {
		// diagnosis: which conjunct of the goal fails?
		if parts := splitGoal(q.Goal); len(parts) > 1 {
			var bad []string
			for i, p := range parts {
				sub := &Query{Obl: q.Obl, Kind: q.Kind, Hyps: q.Hyps, Goal: p, fx: q.fx}
				sfile := filepath.Join(s.dir, fmt.Sprintf("%s.c%d.smt2", h, i))
				_ = os.WriteFile(sfile, []byte(sub.smt(false)), 0o644)
				sr := runSolver(context.Background(), solvers[0], sfile, s.quickT, s.seed)
				if sr.status != "unsat" {
					sr2 := runSolver(context.Background(), solvers[1], sfile, s.quickT, s.seed)
					if sr2.status == "unsat" {
						sr = sr2
					}
				}
				if sr.status != "unsat" {
					msg := fmt.Sprintf("conjunct %d/%d (%s): %s", i+1, len(parts), sr.status, truncate(p, 300))
					if !isQuantified(p) {
						// candidate values from the quantifier-free weakening
						atoms := selectAtoms(p)
						if len(atoms) > 0 {
							gtext := sub.smtOpt(true, true) + "(get-value (" + strings.Join(atoms, " ") + "))\n"
							gtext = strings.Replace(gtext, "(get-model)\n", "", 1)
							gf := filepath.Join(s.dir, fmt.Sprintf("%s.c%d.g.smt2", h, i))
							_ = os.WriteFile(gf, []byte(gtext), 0o644)
							gr := runSolver(context.Background(), solvers[0], gf, 3, s.seed)
							if gr.status == "sat" {
								msg += "\n           candidate (ground) values: " + strings.Join(strings.Fields(strings.TrimPrefix(gr.output, "sat")), " ")
							} else {
								msg += "\n           ground weakening: " + gr.status
							}
							if !s.keep {
								os.Remove(gf)
							}
						}
					}
					bad = append(bad, msg)
				}
				if !s.keep {
					os.Remove(sfile)
				}
			}
			q.Diag = bad
		}
	}
	if r.status == "sat" || (q.Canary && r.status == "unsat") {
		// obtain a model for the report
		mfile := filepath.Join(s.dir, h+".m.smt2")
		_ = os.WriteFile(mfile, []byte(q.smt(true)), 0o644)
		for _, sp := range solvers {
			if sp.name == r.solver {
				mr := runSolver(context.Background(), sp, mfile, s.quickT*2, s.seed)
				if mr.status == "sat" {
					q.Model = mr.output
				}
			}
		}
		if !s.keep {
			os.Remove(mfile)
		}
	}
	q.Status, q.Solver, q.Seconds, q.Output = r.status, r.solver, r.seconds, truncate(r.output, 4000)
	if s.progress {
		fmt.Fprintf(os.Stderr, "  [%s %.1fs %s] %s  path=%s\n", q.Status, q.Seconds, q.Solver, q.Obl, q.Trail)
	}
	s.mu.Lock()
	s.cache[h] = &r
	s.mu.Unlock()
}

func truncate(s string, n int) string {
	if len(s) > n {
		return s[:n] + "…"
	}
	return s
}

// selectAtoms: maximal (select ...) terms and free constants of a quantifier-free term
func selectAtoms(t string) []string {
	seen := map[string]bool{}
	var out []string
	var walk func(s string)
	walk = func(s string) {
		op, args := sexprArgs(s)
		if op == "" {
			if s != "" && !numRe.MatchString(s) && s != "true" && s != "false" && (strings.Contains(s, "@") || strings.Contains(s, "$")) {
				if !seen[s] {
					seen[s] = true
					out = append(out, s)
				}
			}
			return
		}
		if op == "select" {
			if !seen[s] {
				seen[s] = true
				out = append(out, s)
			}
			return
		}
		for _, a := range args {
			walk(a)
		}
	}
	walk(t)
	if len(out) > 24 {
		out = out[:24]
	}
	return out
}
