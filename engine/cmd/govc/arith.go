package main

import (
	"fmt"
	"go/types"
	"math/big"
	"regexp"
	"strings"
)

// Arith carries per-function arithmetic context: mode, side tables, UF declarations.
type Arith struct {
	mode     Mode
	shiftOf  map[string]int // term -> it is (something << k) exactly, low k bits zero
	maxBits  map[string]int // term -> value known < 2^bits (non-negative)
	decls    *Decls
	abstract map[string]bool // names of abstraction UFs used (reported)
}

func newArith(m Mode, d *Decls) *Arith {
	return &Arith{mode: m, shiftOf: map[string]int{}, maxBits: map[string]int{}, decls: d, abstract: map[string]bool{}}
}

func sx(op string, args ...string) string {
	return "(" + op + " " + strings.Join(args, " ") + ")"
}

func and(xs ...string) string {
	var ys []string
	for _, x := range xs {
		if x == "true" || x == "" {
			continue
		}
		if x == "false" {
			return "false"
		}
		ys = append(ys, x)
	}
	switch len(ys) {
	case 0:
		return "true"
	case 1:
		return ys[0]
	}
	return sx("and", ys...)
}

func or(xs ...string) string {
	var ys []string
	for _, x := range xs {
		if x == "false" || x == "" {
			continue
		}
		if x == "true" {
			return "true"
		}
		ys = append(ys, x)
	}
	switch len(ys) {
	case 0:
		return "false"
	case 1:
		return ys[0]
	}
	return sx("or", ys...)
}

func not(x string) string {
	if x == "true" {
		return "false"
	}
	if x == "false" {
		return "true"
	}
	if strings.HasPrefix(x, "(not ") && balanced(x[5:len(x)-1]) {
		return x[5 : len(x)-1]
	}
	return sx("not", x)
}

func balanced(s string) bool {
	d := 0
	for i := 0; i < len(s); i++ {
		switch s[i] {
		case '(':
			d++
		case ')':
			d--
			if d < 0 {
				return false
			}
		case ' ':
			if d == 0 {
				return false
			}
		}
	}
	return d == 0
}

func implies(a, b string) string {
	if a == "true" {
		return b
	}
	if b == "true" || a == "false" {
		return "true"
	}
	return sx("=>", a, b)
}

func ite(c, a, b string) string {
	if c == "true" {
		return a
	}
	if c == "false" {
		return b
	}
	if a == b {
		return a
	}
	return sx("ite", c, a, b)
}

func eq(a, b string) string {
	if a == b {
		return "true"
	}
	return sx("=", a, b)
}

var numRe = regexp.MustCompile(`^(\d+|\(- \d+\))$`)
var bvRe = regexp.MustCompile(`^\(_ bv(\d+) (\d+)\)$`)

func litVal(t string) (*big.Int, bool) {
	if numRe.MatchString(t) {
		neg := strings.HasPrefix(t, "(- ")
		s := strings.TrimSuffix(strings.TrimPrefix(t, "(- "), ")")
		v, ok := new(big.Int).SetString(s, 10)
		if !ok {
			return nil, false
		}
		if neg {
			v.Neg(v)
		}
		return v, true
	}
	if m := bvRe.FindStringSubmatch(t); m != nil {
		v, _ := new(big.Int).SetString(m[1], 10)
		return v, true
	}
	return nil, false
}

// rangeFactRO: like rangeFact but without touching the side tables (safe for concurrent use)
func (a *Arith) rangeFactRO(term string, t types.Type) string {
	bits, signed, ok := intInfo(t)
	if !ok || bits == 0 || a.mode == ModeBV {
		return "true"
	}
	if signed {
		lo := new(big.Int).Neg(pow2(bits - 1))
		hi := new(big.Int).Sub(pow2(bits-1), big.NewInt(1))
		return and(sx("<=", a.mode.num(lo, "Int"), term), sx("<=", term, hi.String()))
	}
	hi := new(big.Int).Sub(pow2(bits), big.NewInt(1))
	return and(sx("<=", "0", term), sx("<=", term, hi.String()))
}

func (a *Arith) rangeFact(term string, t types.Type) string {
	if a.mode == ModeBV {
		return "true"
	}
	if t == nil {
		return "true"
	}
	bits, signed, ok := intInfo(t)
	if !ok || bits == 0 {
		return "true"
	}
	if signed {
		lo := new(big.Int).Neg(pow2(bits - 1))
		hi := new(big.Int).Sub(pow2(bits-1), big.NewInt(1))
		return and(sx("<=", a.mode.num(lo, "Int"), term), sx("<=", term, hi.String()))
	}
	hi := new(big.Int).Sub(pow2(bits), big.NewInt(1))
	a.maxBits[term] = bits
	return and(sx("<=", "0", term), sx("<=", term, hi.String()))
}

// wrap an exact mathematical result into type t (Int mode).
func (a *Arith) wrap(term string, t types.Type, hint string) string {
	bits, signed, ok := intInfo(t)
	if !ok || bits == 0 {
		return term
	}
	if v, isLit := litVal(term); isLit {
		return a.mode.num(wrapBig(v, bits, signed), "Int")
	}
	p := pow2(bits).String()
	if !signed {
		switch hint {
		case "add":
			return ite(sx(">=", term, p), sx("-", term, p), term)
		case "sub":
			return ite(sx("<", term, "0"), sx("+", term, p), term)
		}
		return sx("mod", term, p)
	}
	h := pow2(bits - 1).String()
	switch hint {
	case "add", "sub":
		return ite(sx(">=", term, h), sx("-", term, p), ite(sx("<", term, "(- "+h+")"), sx("+", term, p), term))
	}
	return sx("-", sx("mod", sx("+", term, h), p), h)
}

func wrapBig(v *big.Int, bits int, signed bool) *big.Int {
	m := new(big.Int).Mod(v, pow2(bits))
	if signed && m.Cmp(pow2(bits-1)) >= 0 {
		m.Sub(m, pow2(bits))
	}
	return m
}

func (a *Arith) uf(name string, argSorts []string, res string, args ...string) string {
	a.decls.declareFun(name, argSorts, res)
	a.abstract[name] = true
	return sx(name, args...)
}

// binop on scalar integer terms of Go type t.  math = specification arithmetic (no wrap, Int mode only).
// side = facts that hold about the result (to be assumed).
func (a *Arith) binop(op string, x, y string, t types.Type, yt types.Type, math bool) (res string, side []string) {
	if isReal(t) {
		switch op {
		case "+", "-", "*", "/":
			return sx(op, x, y), nil
		}
		panic("real op " + op)
	}
	if a.mode == ModeBV {
		return a.bvBinop(op, x, y, t, yt), nil
	}
	bits, signed, _ := intInfo(t)
	if math {
		bits = 0
	}
	xv, xl := litVal(x)
	yv, yl := litVal(y)
	if xl && yl {
		var r *big.Int
		switch op {
		case "+":
			r = new(big.Int).Add(xv, yv)
		case "-":
			r = new(big.Int).Sub(xv, yv)
		case "*":
			r = new(big.Int).Mul(xv, yv)
		case "<<":
			r = new(big.Int).Lsh(xv, uint(yv.Int64()))
		case "/":
			if yv.Sign() != 0 {
				r = new(big.Int).Quo(xv, yv)
			}
		case "%":
			if yv.Sign() != 0 {
				r = new(big.Int).Rem(xv, yv)
			}
		}
		if r != nil {
			if bits > 0 {
				r = wrapBig(r, bits, signed)
			}
			return a.mode.num(r, "Int"), nil
		}
	}
	switch op {
	case "+":
		if x == "0" {
			return y, nil
		}
		if y == "0" {
			return x, nil
		}
		return a.wrap(sx("+", x, y), typeOrMath(t, math), "add"), nil
	case "-":
		if y == "0" {
			return x, nil
		}
		return a.wrap(sx("-", x, y), typeOrMath(t, math), "sub"), nil
	case "*":
		if x == "1" {
			return y, nil
		}
		if y == "1" {
			return x, nil
		}
		return a.wrap(sx("*", x, y), typeOrMath(t, math), "mul"), nil
	case "/", "%":
		// Go truncated division
		nonneg := !signed && bits > 0
		var q string
		if nonneg || (yl && yv.Sign() > 0 && a.knownNonNeg(x)) {
			q = sx("div", x, y)
			if op == "/" {
				return q, nil
			}
			return sx("mod", x, y), nil
		}
		if yl && yv.Sign() > 0 {
			q = ite(sx(">=", x, "0"), sx("div", x, y), sx("-", sx("div", sx("-", x), y)))
		} else {
			q = ite(sx(">=", x, "0"),
				ite(sx(">", y, "0"), sx("div", x, y), sx("-", sx("div", x, sx("-", y)))),
				ite(sx(">", y, "0"), sx("-", sx("div", sx("-", x), y)), sx("div", sx("-", x), sx("-", y))))
		}
		if op == "/" {
			return a.wrap(q, typeOrMath(t, math), "mul"), nil
		}
		return sx("-", x, sx("*", y, q)), nil
	case "<<":
		if yl {
			k := int(yv.Int64())
			r := a.wrap(sx("*", x, pow2(k).String()), typeOrMath(t, math), "mul")
			a.shiftOf[r] = k
			return r, nil
		}
	case ">>":
		if yl {
			k := int(yv.Int64())
			return sx("div", x, pow2(k).String()), nil
		}
	case "&":
		if yl && isMask(yv) {
			r := sx("mod", x, new(big.Int).Add(yv, big.NewInt(1)).String())
			a.maxBits[r] = yv.BitLen()
			return r, nil
		}
		if xl && isMask(xv) {
			r := sx("mod", y, new(big.Int).Add(xv, big.NewInt(1)).String())
			a.maxBits[r] = xv.BitLen()
			return r, nil
		}
	case "|":
		if k, ok := a.shiftOf[x]; ok {
			if b, ok2 := a.maxBits[y]; ok2 && b <= k {
				return sx("+", x, y), nil
			}
		}
		if k, ok := a.shiftOf[y]; ok {
			if b, ok2 := a.maxBits[x]; ok2 && b <= k {
				return sx("+", x, y), nil
			}
		}
	}
	// abstraction: uninterpreted function with range facts
	name := "abs$" + opName(op)
	r := a.uf(name, []string{"Int", "Int"}, "Int", x, y)
	side = append(side, a.rangeFact(r, t))
	if !signed && bits > 0 {
		switch op {
		case "&":
			side = append(side, sx("<=", r, x), sx("<=", r, y))
		case "|":
			side = append(side, sx(">=", r, x), sx(">=", r, y), sx("<=", r, sx("+", x, y)))
		case ">>":
			side = append(side, sx("<=", r, x))
		}
	}
	return r, side
}

func typeOrMath(t types.Type, math bool) types.Type {
	if math {
		return MathInt
	}
	return t
}

func (a *Arith) knownNonNeg(x string) bool {
	if v, ok := litVal(x); ok {
		return v.Sign() >= 0
	}
	_, ok := a.maxBits[x]
	return ok
}

func isReal(t types.Type) bool {
	if t == nil {
		return false
	}
	b, ok := t.Underlying().(*types.Basic)
	return ok && b.Info()&types.IsFloat != 0
}

func isMask(v *big.Int) bool {
	if v.Sign() <= 0 {
		return false
	}
	w := new(big.Int).Add(v, big.NewInt(1))
	return new(big.Int).And(w, v).Sign() == 0
}

func opName(op string) string {
	switch op {
	case "&":
		return "and"
	case "|":
		return "or"
	case "^":
		return "xor"
	case "&^":
		return "andnot"
	case "<<":
		return "shl"
	case ">>":
		return "shr"
	case "/":
		return "div"
	case "%":
		return "rem"
	}
	return "op"
}

func (a *Arith) cmp(op string, x, y string, t types.Type) string {
	if a.mode == ModeBV {
		if _, signed, ok := intInfo(t); ok && bitsOf(t) > 0 {
			switch op {
			case "==":
				return eq(x, y)
			case "!=":
				return not(eq(x, y))
			}
			pre := "bvu"
			if signed {
				pre = "bvs"
			}
			m := map[string]string{"<": "lt", "<=": "le", ">": "gt", ">=": "ge"}
			return sx(pre+m[op], x, y)
		}
	}
	switch op {
	case "==":
		return eq(x, y)
	case "!=":
		return not(eq(x, y))
	}
	return sx(op, x, y)
}

func bitsOf(t types.Type) int {
	b, _, _ := intInfo(t)
	return b
}

func (a *Arith) bvBinop(op string, x, y string, t, yt types.Type) string {
	bits, signed, ok := intInfo(t)
	if !ok || bits == 0 {
		panic("bv binop on non-sized int type " + typeStr(t))
	}
	switch op {
	case "+":
		return sx("bvadd", x, y)
	case "-":
		return sx("bvsub", x, y)
	case "*":
		return sx("bvmul", x, y)
	case "&":
		return sx("bvand", x, y)
	case "|":
		return sx("bvor", x, y)
	case "^":
		return sx("bvxor", x, y)
	case "&^":
		return sx("bvand", x, sx("bvnot", y))
	case "/":
		if signed {
			return sx("bvsdiv", x, y)
		}
		return sx("bvudiv", x, y)
	case "%":
		if signed {
			return sx("bvsrem", x, y)
		}
		return sx("bvurem", x, y)
	case "<<", ">>":
		ybits := bits
		if yt != nil {
			if b, _, ok := intInfo(yt); ok && b > 0 {
				ybits = b
			}
		}
		sh := "bvshl"
		if op == ">>" {
			sh = "bvlshr"
			if signed {
				sh = "bvashr"
			}
		}
		yy := y
		if ybits < bits {
			yy = sx(fmt.Sprintf("(_ zero_extend %d)", bits-ybits), y)
			return sx(sh, x, yy)
		}
		if ybits > bits {
			big := sx("bvuge", y, a.mode.num(big.NewInt(int64(bits)), fmt.Sprintf("(_ BitVec %d)", ybits)))
			yy = sx(fmt.Sprintf("(_ extract %d 0)", bits-1), y)
			over := a.mode.num(big0(), fmt.Sprintf("(_ BitVec %d)", bits))
			if op == ">>" && signed {
				over = sx("bvashr", x, a.mode.num(new(bigInt).SetInt64(int64(bits-1)), fmt.Sprintf("(_ BitVec %d)", bits)))
			}
			return ite(big, over, sx(sh, x, yy))
		}
		return sx(sh, x, yy)
	}
	panic("bv binop " + op)
}

func big0() *big.Int { return big.NewInt(0) }

// convert scalar x from type `from` to type `to`.
func (a *Arith) conv(x string, from, to types.Type, math bool) string {
	fb, fs, fok := intInfo(from)
	tb, ts, tok := intInfo(to)
	if isReal(to) {
		if fok {
			if a.mode == ModeBV {
				panic("bv->real conversion unsupported")
			}
			return sx("to_real", x)
		}
		return x
	}
	if isReal(from) && tok {
		return sx("to_int", x)
	}
	if !fok || !tok {
		return x
	}
	if a.mode == ModeBV {
		if fb == 0 || tb == 0 {
			if v, ok := litVal(x); ok && tb > 0 {
				return a.mode.num(v, fmt.Sprintf("(_ BitVec %d)", tb))
			}
			panic("bv conversion with unsized int")
		}
		switch {
		case tb == fb:
			return x
		case tb < fb:
			return sx(fmt.Sprintf("(_ extract %d 0)", tb-1), x)
		default:
			if fs {
				return sx(fmt.Sprintf("(_ sign_extend %d)", tb-fb), x)
			}
			return sx(fmt.Sprintf("(_ zero_extend %d)", tb-fb), x)
		}
	}
	if math || tb == 0 {
		return x
	}
	if v, ok := litVal(x); ok {
		return a.mode.num(wrapBig(v, tb, ts), "Int")
	}
	// target range includes source range?
	if fb > 0 {
		if fs == ts && tb >= fb {
			return x
		}
		if !fs && ts && tb > fb {
			return x
		}
	}
	if b, ok := a.maxBits[x]; ok {
		if (!ts && b <= tb) || (ts && b < tb) {
			return x
		}
	}
	var r string
	if !ts {
		if fb > 0 && fs && fb <= tb {
			// signed -> unsigned same/larger width
			r = ite(sx("<", x, "0"), sx("+", x, pow2(tb).String()), x)
		} else {
			r = sx("mod", x, pow2(tb).String())
			a.maxBits[r] = tb
		}
		return r
	}
	if fb > 0 && !fs && fb == tb {
		return ite(sx(">=", x, pow2(tb-1).String()), sx("-", x, pow2(tb).String()), x)
	}
	return a.wrap(x, to, "mul")
}
